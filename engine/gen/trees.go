// Package gen holds the bounded-exhaustive enumerators (E1).
package gen

// Alphabet fixes the tokens a tree may be built from.
type Alphabet struct {
	Scalars []any
	Keys    []string
	MaxList int // max entries in a list
	MaxMap  int // max keys in a map
	NoLists bool
	NoMaps  bool
}

type enumerator struct {
	a    Alphabet
	memo map[int][]any
}

// TreesExact returns every tree with exactly n nodes (a node is a scalar or a
// container; {} and [] are one node), in a deterministic order.
func TreesExact(a Alphabet, n int) []any {
	e := &enumerator{a: a, memo: map[int][]any{}}
	return e.exact(n)
}

// Trees returns every tree with at most n nodes, smallest first.
func Trees(a Alphabet, n int) []any {
	e := &enumerator{a: a, memo: map[int][]any{}}
	var out []any
	for k := 1; k <= n; k++ {
		out = append(out, e.exact(k)...)
	}
	return out
}

func (e *enumerator) exact(n int) []any {
	if n <= 0 {
		return nil
	}
	if r, ok := e.memo[n]; ok {
		return r
	}
	var out []any
	if n == 1 {
		out = append(out, e.a.Scalars...)
		if !e.a.NoMaps {
			out = append(out, map[string]any{})
		}
		if !e.a.NoLists {
			out = append(out, []any{})
		}
		e.memo[n] = out
		return out
	}
	// lists: sequences of 1..MaxList children whose sizes sum to n-1
	if !e.a.NoLists {
		for l := 1; l <= e.a.MaxList && l <= n-1; l++ {
			e.compositions(n-1, l, func(sizes []int) {
				e.product(sizes, func(children []any) {
					out = append(out, append([]any{}, children...))
				})
			})
		}
	}
	// maps: sorted key subsets of size 1..MaxMap
	if !e.a.NoMaps {
		for w := 1; w <= e.a.MaxMap && w <= n-1 && w <= len(e.a.Keys); w++ {
			subsets(len(e.a.Keys), w, func(idx []int) {
				e.compositions(n-1, w, func(sizes []int) {
					e.product(sizes, func(children []any) {
						m := make(map[string]any, w)
						for i, ki := range idx {
							m[e.a.Keys[ki]] = children[i]
						}
						out = append(out, m)
					})
				})
			})
		}
	}
	e.memo[n] = out
	return out
}

// compositions calls f with every way to write total as an ordered sum of
// parts positive integers.
func (e *enumerator) compositions(total, parts int, f func([]int)) {
	sizes := make([]int, parts)
	var rec func(i, left int)
	rec = func(i, left int) {
		if i == parts-1 {
			if left >= 1 {
				sizes[i] = left
				f(sizes)
			}
			return
		}
		for s := 1; s <= left-(parts-1-i); s++ {
			sizes[i] = s
			rec(i+1, left-s)
		}
	}
	rec(0, total)
}

func (e *enumerator) product(sizes []int, f func([]any)) {
	children := make([]any, len(sizes))
	var rec func(i int)
	rec = func(i int) {
		if i == len(sizes) {
			f(children)
			return
		}
		for _, c := range e.exact(sizes[i]) {
			children[i] = c
			rec(i + 1)
		}
	}
	rec(0)
}

func subsets(n, k int, f func([]int)) {
	idx := make([]int, k)
	var rec func(i, start int)
	rec = func(i, start int) {
		if i == k {
			f(idx)
			return
		}
		for j := start; j <= n-(k-i); j++ {
			idx[i] = j
			rec(i+1, j+1)
		}
	}
	rec(0, 0)
}

// Filter keeps the trees for which keep returns true.
func Filter(ts []any, keep func(any) bool) []any {
	var out []any
	for _, t := range ts {
		if keep(t) {
			out = append(out, t)
		}
	}
	return out
}

// IsMap / IsList are tiny helpers for filters.
func IsMap(v any) bool  { _, ok := v.(map[string]any); return ok }
func IsList(v any) bool { _, ok := v.([]any); return ok }

// Sequences calls f with every sequence of length 1..maxLen over n symbols.
func Sequences(n, maxLen int, f func([]int)) {
	for l := 1; l <= maxLen; l++ {
		seq := make([]int, l)
		var rec func(i int)
		rec = func(i int) {
			if i == l {
				f(seq)
				return
			}
			for s := 0; s < n; s++ {
				seq[i] = s
				rec(i + 1)
			}
		}
		rec(0)
	}
}

// CountSequences = n + n^2 + ... + n^maxLen.
func CountSequences(n, maxLen int) int64 {
	var total, p int64 = 0, 1
	for l := 1; l <= maxLen; l++ {
		p *= int64(n)
		total += p
	}
	return total
}

// SequenceAt decodes index i (0-based, in the order of Sequences) into a sequence.
func SequenceAt(n, maxLen int, i int64) []int {
	p := int64(1)
	for l := 1; l <= maxLen; l++ {
		p *= int64(n)
		if i < p {
			seq := make([]int, l)
			for k := l - 1; k >= 0; k-- {
				seq[k] = int(i % int64(n))
				i /= int64(n)
			}
			return seq
		}
		i -= p
	}
	return nil
}
