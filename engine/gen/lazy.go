package gen

// Set is the same enumeration as Trees(a, n) - same trees, same order - addressed by index
// instead of held in memory: Len() trees, At(i) builds the i-th one. Counting and unranking
// walk the construction order of enumerator.exact, so Set.At(i) equals Trees(a, n)[i].
type Set struct {
	a      Alphabet
	n      int
	counts map[int]int64
	cum    []int64 // cum[k] = number of trees with fewer than k+1 nodes... cum[k] = sum_{j<=k} exact(j)
	e      *enumerator
}

func NewSet(a Alphabet, n int) *Set {
	s := &Set{a: a, n: n, counts: map[int]int64{}, e: &enumerator{a: a, memo: map[int][]any{}}}
	total := int64(0)
	s.cum = make([]int64, n+1)
	for k := 1; k <= n; k++ {
		total += s.count(k)
		s.cum[k] = total
	}
	return s
}

func (s *Set) Len() int64 { return s.cum[s.n] }

// At returns the i-th tree (a fresh value: nothing is shared between calls).
func (s *Set) At(i int64) any {
	for k := 1; k <= s.n; k++ {
		if i < s.cum[k] {
			return s.at(k, i-s.cum[k-1])
		}
	}
	panic("gen.Set.At: index out of range")
}

func (s *Set) leaves() int64 {
	n := int64(len(s.a.Scalars))
	if !s.a.NoMaps {
		n++
	}
	if !s.a.NoLists {
		n++
	}
	return n
}

func (s *Set) block(sizes []int) int64 {
	p := int64(1)
	for _, z := range sizes {
		p *= s.count(z)
	}
	return p
}

func (s *Set) count(n int) int64 {
	if n <= 0 {
		return 0
	}
	if c, ok := s.counts[n]; ok {
		return c
	}
	var total int64
	if n == 1 {
		total = s.leaves()
	} else {
		if !s.a.NoLists {
			for l := 1; l <= s.a.MaxList && l <= n-1; l++ {
				s.e.compositions(n-1, l, func(sizes []int) { total += s.block(sizes) })
			}
		}
		if !s.a.NoMaps {
			for w := 1; w <= s.a.MaxMap && w <= n-1 && w <= len(s.a.Keys); w++ {
				subsets(len(s.a.Keys), w, func(idx []int) {
					s.e.compositions(n-1, w, func(sizes []int) { total += s.block(sizes) })
				})
			}
		}
	}
	s.counts[n] = total
	return total
}

// children unranks i within the product of the given sizes (last child varies fastest).
func (s *Set) children(sizes []int, i int64) []any {
	out := make([]any, len(sizes))
	for k := len(sizes) - 1; k >= 0; k-- {
		c := s.count(sizes[k])
		out[k] = s.at(sizes[k], i%c)
		i /= c
	}
	return out
}

func (s *Set) at(n int, i int64) any {
	if n == 1 {
		ns := int64(len(s.a.Scalars))
		if i < ns {
			return s.a.Scalars[i]
		}
		i -= ns
		if !s.a.NoMaps {
			if i == 0 {
				return map[string]any{}
			}
			i--
		}
		return []any{}
	}
	var result any
	found := false
	if !s.a.NoLists {
		for l := 1; l <= s.a.MaxList && l <= n-1 && !found; l++ {
			s.e.compositions(n-1, l, func(sizes []int) {
				if found {
					return
				}
				b := s.block(sizes)
				if i < b {
					result = s.children(sizes, i)
					found = true
					return
				}
				i -= b
			})
		}
	}
	if !s.a.NoMaps {
		for w := 1; w <= s.a.MaxMap && w <= n-1 && w <= len(s.a.Keys) && !found; w++ {
			subsets(len(s.a.Keys), w, func(idx []int) {
				if found {
					return
				}
				s.e.compositions(n-1, w, func(sizes []int) {
					if found {
						return
					}
					b := s.block(sizes)
					if i < b {
						ch := s.children(sizes, i)
						m := make(map[string]any, w)
						for k, ki := range idx {
							m[s.a.Keys[ki]] = ch[k]
						}
						result = m
						found = true
						return
					}
					i -= b
				})
			})
		}
	}
	if !found {
		panic("gen.Set.at: index out of range")
	}
	return result
}
