package gen

import (
	"reflect"
	"testing"
)

func TestSetMatchesTrees(t *testing.T) {
	as := []Alphabet{
		{Scalars: []any{1, "x", nil}, Keys: []string{"a", "b", "c"}, MaxList: 3, MaxMap: 2},
		{Scalars: []any{1}, Keys: []string{"a", "b"}, MaxList: 2, MaxMap: 3},
		{Scalars: []any{1, 2}, Keys: []string{"a"}, MaxList: 3, MaxMap: 3, NoLists: true},
		{Scalars: []any{1, 2}, Keys: []string{"a", "b"}, MaxList: 3, MaxMap: 1, NoMaps: true},
	}
	for ai, a := range as {
		for n := 1; n <= 6; n++ {
			ts := Trees(a, n)
			s := NewSet(a, n)
			if s.Len() != int64(len(ts)) {
				t.Fatalf("alphabet %d n=%d: Len %d, Trees %d", ai, n, s.Len(), len(ts))
			}
			for i := range ts {
				if !reflect.DeepEqual(s.At(int64(i)), ts[i]) {
					t.Fatalf("alphabet %d n=%d index %d: %v vs %v", ai, n, i, s.At(int64(i)), ts[i])
				}
			}
		}
	}
}
