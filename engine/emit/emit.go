// Package emit holds the harness's own serialisers (trusted base of C04/C05;
// cross-checked against the independent Python parsers on every run). They
// never go through bkl's encoders.
package emit

import (
	"encoding/json"
	"fmt"
	"math"
	"sort"
	"strconv"
	"strings"
)

func keys(m map[string]any) []string {
	ks := make([]string, 0, len(m))
	for k := range m {
		ks = append(ks, k)
	}
	sort.Strings(ks)
	return ks
}

// Num renders a number exactly: integers as decimals, floats always with a
// '.' or an exponent so that every format reads them back as floats.
func Num(v any) string {
	switch x := v.(type) {
	case int:
		return strconv.Itoa(x)
	case int64:
		return strconv.FormatInt(x, 10)
	case float64:
		if x == math.Trunc(x) && math.Abs(x) < 1e15 {
			return strconv.FormatFloat(x, 'f', 1, 64)
		}
		s := strconv.FormatFloat(x, 'g', -1, 64)
		if !strings.ContainsAny(s, ".e") {
			s += ".0"
		}
		return s
	}
	panic(fmt.Sprintf("emit.Num: %T", v))
}

func quote(s string) string {
	b, _ := json.Marshal(s)
	// encoding/json escapes <, >, & as \u00XX: fine for JSON and YAML; TOML basic strings accept \uXXXX too
	return string(b)
}

func scalar(v any) (string, bool) {
	switch x := v.(type) {
	case nil:
		return "null", true
	case bool:
		if x {
			return "true", true
		}
		return "false", true
	case string:
		return quote(x), true
	case int, int64, float64:
		return Num(x), true
	}
	return "", false
}

// JSON renders compact JSON (also valid YAML flow style).
func JSON(v any) string {
	if s, ok := scalar(v); ok {
		return s
	}
	switch x := v.(type) {
	case map[string]any:
		var parts []string
		for _, k := range keys(x) {
			parts = append(parts, quote(k)+": "+JSON(x[k]))
		}
		return "{" + strings.Join(parts, ", ") + "}"
	case []any:
		var parts []string
		for _, c := range x {
			parts = append(parts, JSON(c))
		}
		return "[" + strings.Join(parts, ", ") + "]"
	}
	panic(fmt.Sprintf("emit.JSON: %T", v))
}

// YAMLBlock renders block-style YAML with every string double-quoted.
func YAMLBlock(v any) string {
	var b strings.Builder
	yamlBlock(&b, v, 0)
	return b.String()
}

func yamlBlock(b *strings.Builder, v any, ind int) {
	pad := strings.Repeat(" ", ind)
	switch x := v.(type) {
	case map[string]any:
		if len(x) == 0 {
			b.WriteString(pad + "{}\n")
			return
		}
		for _, k := range keys(x) {
			b.WriteString(pad + quote(k) + ":")
			yamlChild(b, x[k], ind)
		}
	case []any:
		if len(x) == 0 {
			b.WriteString(pad + "[]\n")
			return
		}
		for _, c := range x {
			b.WriteString(pad + "-")
			yamlChild(b, c, ind)
		}
	default:
		s, _ := scalar(v)
		b.WriteString(pad + s + "\n")
	}
}

func yamlChild(b *strings.Builder, c any, ind int) {
	if s, ok := scalar(c); ok {
		b.WriteString(" " + s + "\n")
		return
	}
	switch x := c.(type) {
	case map[string]any:
		if len(x) == 0 {
			b.WriteString(" {}\n")
			return
		}
	case []any:
		if len(x) == 0 {
			b.WriteString(" []\n")
			return
		}
	}
	b.WriteString("\n")
	yamlBlock(b, c, ind+2)
}

// TOMLInline renders a map-rooted document with inline tables only.
func TOMLInline(m map[string]any) string {
	var b strings.Builder
	for _, k := range keys(m) {
		b.WriteString(quote(k) + " = " + tomlValue(m[k]) + "\n")
	}
	return b.String()
}

func tomlValue(v any) string {
	if v == nil {
		panic("emit: TOML cannot express null")
	}
	if s, ok := scalar(v); ok {
		return s
	}
	switch x := v.(type) {
	case map[string]any:
		var parts []string
		for _, k := range keys(x) {
			parts = append(parts, quote(k)+" = "+tomlValue(x[k]))
		}
		return "{" + strings.Join(parts, ", ") + "}"
	case []any:
		var parts []string
		for _, c := range x {
			parts = append(parts, tomlValue(c))
		}
		return "[" + strings.Join(parts, ", ") + "]"
	}
	panic(fmt.Sprintf("emit.TOML: %T", v))
}

// TOMLTables renders nested maps as [table] headers and lists of maps as
// [[array-of-tables]] where possible.
func TOMLTables(m map[string]any) string {
	var b strings.Builder
	tomlTable(&b, m, nil)
	return b.String()
}

func allMaps(l []any) bool {
	if len(l) == 0 {
		return false
	}
	for _, e := range l {
		if _, ok := e.(map[string]any); !ok {
			return false
		}
	}
	return true
}

func tomlTable(b *strings.Builder, m map[string]any, path []string) {
	for _, k := range keys(m) {
		switch x := m[k].(type) {
		case map[string]any:
			continue
		case []any:
			if allMaps(x) {
				continue
			}
			b.WriteString(quote(k) + " = " + tomlValue(x) + "\n")
		default:
			b.WriteString(quote(k) + " = " + tomlValue(x) + "\n")
		}
	}
	for _, k := range keys(m) {
		p := append(append([]string{}, path...), quote(k))
		switch x := m[k].(type) {
		case map[string]any:
			b.WriteString("[" + strings.Join(p, ".") + "]\n")
			tomlTable(b, x, p)
		case []any:
			if allMaps(x) {
				for _, e := range x {
					b.WriteString("[[" + strings.Join(p, ".") + "]]\n")
					// entries of an array of tables are written inline-valued to keep nesting simple
					em := e.(map[string]any)
					for _, ek := range keys(em) {
						b.WriteString(quote(ek) + " = " + tomlValue(em[ek]) + "\n")
					}
				}
			}
		}
	}
}

// TOMLDotted renders nested maps as dotted keys where the leaves are not empty maps.
func TOMLDotted(m map[string]any) string {
	var b strings.Builder
	var rec func(x map[string]any, path []string)
	rec = func(x map[string]any, path []string) {
		for _, k := range keys(x) {
			p := append(append([]string{}, path...), quote(k))
			if sub, ok := x[k].(map[string]any); ok && len(sub) > 0 {
				rec(sub, p)
				continue
			}
			b.WriteString(strings.Join(p, ".") + " = " + tomlValue(x[k]) + "\n")
		}
	}
	rec(m, nil)
	return b.String()
}

// Spellings lists the available (format, style) pairs.
var Spellings = []string{"json", "yaml-block", "yaml-flow", "toml-inline", "toml-tables", "toml-dotted"}

// Ext returns the file extension of a spelling.
func Ext(spelling string) string {
	return strings.SplitN(spelling, "-", 2)[0]
}

// Stream renders a stream of documents in a spelling. ok=false when the
// spelling cannot express the documents (TOML: null, non-map roots).
func Stream(spelling string, docs []any) (text string, ok bool) {
	defer func() {
		if r := recover(); r != nil {
			text, ok = "", false
		}
	}()
	var parts []string
	for _, d := range docs {
		switch spelling {
		case "json":
			parts = append(parts, JSON(d)+"\n")
		case "yaml-flow":
			parts = append(parts, JSON(d)+"\n")
		case "yaml-block":
			parts = append(parts, YAMLBlock(d))
		default:
			m, isMap := d.(map[string]any)
			if !isMap {
				return "", false
			}
			switch spelling {
			case "toml-inline":
				parts = append(parts, TOMLInline(m))
			case "toml-tables":
				parts = append(parts, TOMLTables(m))
			case "toml-dotted":
				parts = append(parts, TOMLDotted(m))
			}
		}
	}
	switch Ext(spelling) {
	case "json":
		return strings.Join(parts, ""), true
	default:
		return strings.Join(parts, "---\n"), true
	}
}
