package ref

import "verif/core"

// OutputsResult is the model's answer for one evaluated document.
type OutputsResult struct {
	V         Verdict
	Outs      []any
	Why       string
	NestedSel bool // a selected subtree contains another selection: relative order unspecified
}

type selector struct {
	outs     []any
	selAbove int
	nested   bool
	err      string
	unspec   string
}

func isMarker(v any, val bool) (marker bool, extra bool) {
	m, ok := v.(map[string]any)
	if !ok {
		return false, false
	}
	b, ok := m["$output"].(bool)
	if !ok || b != val {
		return false, false
	}
	return true, len(m) > 1
}

// sel implements select(v) -> clean, collecting outs in the documented order.
func (s *selector) sel(v any) any {
	switch x := v.(type) {
	case map[string]any:
		marked := false
		if b, ok := x["$output"].(bool); ok && b {
			marked = true
		}
		clean := map[string]any{}
		idx := -1
		if marked {
			if s.selAbove > 0 {
				s.nested = true
			}
			s.outs = append(s.outs, clean)
			idx = len(s.outs) - 1
			s.selAbove++
		}
		_ = idx
		for _, k := range core.SortedKeys(x) {
			if k == "$output" && marked {
				continue
			}
			clean[k] = s.sel(x[k])
		}
		if marked {
			s.selAbove--
		}
		return clean
	case []any:
		marked := false
		hidden := false
		for _, e := range x {
			if mk, extra := isMarker(e, true); mk {
				marked = true
				if extra {
					s.err = "$output: true list marker with extra keys"
				}
			}
			if mk, _ := isMarker(e, false); mk {
				hidden = true
			}
		}
		if marked && hidden {
			s.unspec = "list both selected and hidden by its own markers"
		}
		clean := []any{}
		if marked {
			if s.selAbove > 0 {
				s.nested = true
			}
			s.selAbove++
		}
		for _, e := range x {
			if marked {
				if mk, _ := isMarker(e, true); mk {
					continue
				}
			}
			clean = append(clean, s.sel(e))
		}
		if marked {
			s.selAbove--
			s.outs = append(s.outs, any(clean))
		}
		return clean
	default:
		return v
	}
}

type hidden struct{}

// hide implements hide(v): returns hidden{} for ⊥.
func hide(v any, errp *string) any {
	switch x := v.(type) {
	case map[string]any:
		if b, ok := x["$output"].(bool); ok && !b {
			return hidden{}
		}
		out := map[string]any{}
		for _, k := range core.SortedKeys(x) {
			h := hide(x[k], errp)
			if _, gone := h.(hidden); gone {
				continue
			}
			out[k] = h
		}
		return out
	case []any:
		for _, e := range x {
			if mk, extra := isMarker(e, false); mk {
				if extra {
					*errp = "$output: false list marker with extra keys"
				}
			}
		}
		for _, e := range x {
			if mk, _ := isMarker(e, false); mk {
				return hidden{}
			}
		}
		out := []any{}
		for _, e := range x {
			h := hide(e, errp)
			if _, gone := h.(hidden); gone {
				continue
			}
			out = append(out, h)
		}
		return out
	default:
		return v
	}
}

// Outputs models phase 6 on an already evaluated tree (no other directive
// left): selection, hiding, then Final on every emitted document.
func Outputs(v any) OutputsResult {
	if v == nil {
		return OutputsResult{V: Accept}
	}
	s := &selector{}
	clean := s.sel(v)
	if s.unspec != "" {
		return OutputsResult{V: Unspec, Why: s.unspec}
	}
	if s.err != "" {
		return OutputsResult{V: Reject, Why: s.err}
	}
	cands := s.outs
	if len(cands) == 0 {
		cands = []any{clean}
	}
	res := OutputsResult{V: Accept, NestedSel: s.nested}
	for _, o := range cands {
		herr := ""
		h := hide(o, &herr)
		if herr != "" {
			return OutputsResult{V: Reject, Why: herr}
		}
		if _, gone := h.(hidden); gone {
			continue
		}
		f := finalNoOutput(h)
		if f.V != Accept {
			return OutputsResult{V: f.V, Why: f.Why}
		}
		res.Outs = append(res.Outs, f.Val)
	}
	return res
}

// finalNoOutput is Final for a tree whose $output markers were consumed.
func finalNoOutput(v any) Result {
	if y, why := interpreted(v, true); y {
		return uns("evaluation directive present: %s", why)
	}
	return final(v)
}
