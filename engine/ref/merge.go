// Package ref is refbkl: the executable reference semantics (E2). Pure
// functions over immutable JSON-like trees; every result is a fresh copy.
// A call returns Accept(value), Reject or Unspec (DESIGN.md §3.1).
package ref

import (
	"fmt"
	"sort"
	"unicode"
	"verif/core"
)

type Verdict int

const (
	Accept Verdict = iota
	Reject
	Unspec
)

func (v Verdict) String() string {
	switch v {
	case Accept:
		return "accept"
	case Reject:
		return "reject"
	default:
		return "unspecified"
	}
}

type Result struct {
	V   Verdict
	Val any
	Why string
}

func acc(v any) Result              { return Result{V: Accept, Val: v} }
func rej(f string, a ...any) Result { return Result{V: Reject, Why: fmt.Sprintf(f, a...)} }
func uns(f string, a ...any) Result { return Result{V: Unspec, Why: fmt.Sprintf(f, a...)} }

func isScalar(v any) bool {
	switch v.(type) {
	case map[string]any, []any, nil:
		return false
	}
	return true
}

func isNumber(v any) bool {
	switch v.(type) {
	case int, int64, float64, float32, uint64:
		return true
	}
	return false
}

// sameScalar: 0 = different, 1 = same, 2 = unspecified (numerically equal,
// different representation).
func sameScalar(a, b any) int {
	if core.Canon(a) == core.Canon(b) {
		return 1
	}
	if isNumber(a) && isNumber(b) && core.CanonLoose(a) == core.CanonLoose(b) {
		return 2
	}
	return 0
}

func containsNull(v any) bool {
	switch x := v.(type) {
	case nil:
		return true
	case map[string]any:
		for _, c := range x {
			if containsNull(c) {
				return true
			}
		}
	case []any:
		for _, c := range x {
			if containsNull(c) {
				return true
			}
		}
	}
	return false
}

func placeholder(m map[string]any) bool {
	if len(m) != 1 {
		return false
	}
	for k := range m {
		return k == "$merge" || k == "$replace" || k == "$encode"
	}
	return false
}

// Match returns 1 (matches), 0 (does not) or 2 (unspecified).
func Match(obj, pat any) int {
	switch p := pat.(type) {
	case map[string]any:
		inv := false
		if b, ok := p["$invert"].(bool); ok && b {
			inv = true
			q := map[string]any{}
			for k, v := range p {
				if k != "$invert" {
					q[k] = v
				}
			}
			p = q
		}
		r := 1
		o, ok := obj.(map[string]any)
		if !ok || placeholder(o) {
			r = 0
		} else {
			for _, k := range core.SortedKeys(p) {
				switch Match(o[k], p[k]) {
				case 0:
					r = 0
				case 2:
					if r == 1 {
						r = 2
					}
				}
				if r == 0 {
					break
				}
			}
		}
		if r == 2 {
			return 2
		}
		if inv {
			return 1 - r
		}
		return r
	case []any:
		o, ok := obj.([]any)
		if !ok {
			return 0
		}
		r := 1
		for _, pv := range p {
			hit := 0
			for _, ov := range o {
				m := Match(ov, pv)
				if m == 1 {
					hit = 1
					break
				}
				if m == 2 {
					hit = 2
				}
			}
			if hit == 0 {
				return 0
			}
			if hit == 2 {
				r = 2
			}
		}
		return r
	case nil:
		return 2 // a pattern that contains null: unspecified
	default:
		if obj == nil {
			return 0
		}
		if !isScalar(obj) {
			return 0
		}
		return sameScalar(obj, pat)
	}
}

// Merge layers src over dst.
func Merge(dst, src any) Result {
	switch d := dst.(type) {
	case map[string]any:
		switch s := src.(type) {
		case map[string]any:
			return mergeMap(d, s)
		case nil:
			return uns("null over a map")
		default:
			if len(d) == 0 {
				return acc(core.Clone(src))
			}
			return rej("%T over a non-empty map", src)
		}
	case []any:
		switch s := src.(type) {
		case []any:
			return mergeList(d, s)
		case nil:
			return uns("null over a list")
		default:
			return rej("%T over a list", src)
		}
	case nil:
		return acc(core.Clone(src))
	default:
		if src == nil {
			return uns("null over a scalar")
		}
		if isScalar(src) {
			switch sameScalar(dst, src) {
			case 1:
				return rej("useless override %v", src)
			case 2:
				return uns("numerically equal scalars of different type")
			}
		}
		return acc(core.Clone(src))
	}
}

func mergeMap(dst, src map[string]any) Result {
	if b, ok := src["$replace"].(bool); ok && b {
		out := map[string]any{}
		for k, v := range src {
			if k != "$replace" {
				out[k] = core.Clone(v)
			}
		}
		return acc(out)
	}
	out := map[string]any{}
	for k, v := range dst {
		out[k] = core.Clone(v)
	}
	worst := Accept
	why := ""
	note := func(r Result) {
		if r.V == Reject && worst != Reject {
			worst, why = Reject, r.Why
		} else if r.V == Unspec && worst == Accept {
			worst, why = Unspec, r.Why
		}
	}
	for _, k := range core.SortedKeys(src) {
		v := src[k]
		existing, found := dst[k]
		if s, ok := v.(string); ok && s == "$delete" {
			if !found {
				note(rej("$delete of missing key %s", k))
				continue
			}
			delete(out, k)
			continue
		}
		if found {
			r := Merge(existing, v)
			if r.V != Accept {
				r.Why = k + ": " + r.Why
				note(r)
				continue
			}
			out[k] = r.Val
		} else {
			out[k] = core.Clone(v)
		}
	}
	if worst != Accept {
		return Result{V: worst, Why: why}
	}
	return acc(out)
}

func mergeList(dst, src []any) Result {
	// "$replace" string entry
	hasStr := false
	for _, v := range src {
		if s, ok := v.(string); ok && s == "$replace" {
			hasStr = true
		}
	}
	if hasStr {
		out := []any{}
		for _, v := range src {
			if s, ok := v.(string); ok && s == "$replace" {
				continue
			}
			out = append(out, core.Clone(v))
		}
		return acc(out)
	}
	// {$replace: true} entry
	hasMap := false
	for _, v := range src {
		if m, ok := v.(map[string]any); ok {
			if b, ok := m["$replace"].(bool); ok && b {
				hasMap = true
			}
		}
	}
	if hasMap {
		out := []any{}
		for _, v := range src {
			if m, ok := v.(map[string]any); ok {
				if b, ok := m["$replace"].(bool); ok && b {
					if len(m) > 1 {
						return rej("$replace entry with extra keys")
					}
					continue
				}
			}
			out = append(out, core.Clone(v))
		}
		return acc(out)
	}
	out := []any{}
	fromSrc := []bool{}
	for _, v := range dst {
		if s, ok := v.(string); ok && s == "$required" {
			continue
		}
		out = append(out, core.Clone(v))
		fromSrc = append(fromSrc, false)
	}
	for _, v := range src {
		m, ok := v.(map[string]any)
		if !ok {
			out = append(out, core.Clone(v))
			fromSrc = append(fromSrc, true)
			continue
		}
		if del, ok := m["$delete"]; ok {
			if len(m) > 1 {
				return rej("$delete entry with extra keys")
			}
			if containsNull(del) {
				return uns("$delete pattern containing null")
			}
			var keep []any
			var keepSrc []bool
			deleted := false
			for i, e := range out {
				switch Match(e, del) {
				case 2:
					return uns("match unspecified")
				case 1:
					if fromSrc[i] {
						return uns("$delete matches an entry appended by the same child list")
					}
					deleted = true
				default:
					keep = append(keep, e)
					keepSrc = append(keepSrc, fromSrc[i])
				}
			}
			if !deleted {
				return rej("$delete matched nothing")
			}
			out, fromSrc = keep, keepSrc
			if out == nil {
				out, fromSrc = []any{}, []bool{}
			}
			continue
		}
		if pat, ok := m["$match"]; ok {
			body := map[string]any{}
			for k, c := range m {
				if k != "$match" {
					body[k] = c
				}
			}
			var val any = body
			if v2, ok := body["$value"]; ok {
				if len(body) > 1 {
					return rej("$value with extra keys")
				}
				val = v2
			}
			if containsNull(pat) {
				return uns("$match pattern containing null")
			}
			found := false
			for i, e := range out {
				switch Match(e, pat) {
				case 2:
					return uns("match unspecified")
				case 1:
					if fromSrc[i] {
						return uns("$match matches an entry appended by the same child list")
					}
					found = true
					r := Merge(e, val)
					if r.V != Accept {
						return r
					}
					out[i] = r.Val
				}
			}
			if !found {
				return rej("$match matched nothing")
			}
			continue
		}
		out = append(out, core.Clone(v))
		fromSrc = append(fromSrc, true)
	}
	return acc(out)
}

// ---------------------------------------------------------------- streams

type Doc struct {
	ID      string
	Data    any
	Parents []*Doc
}

type Stream struct {
	Docs []*Doc
}

func (d *Doc) ancestors(seen map[string]bool) {
	for _, p := range d.Parents {
		if !seen[p.ID] {
			seen[p.ID] = true
			p.ancestors(seen)
		}
	}
}

// MergeDocument applies patch to the stream. Targets lists the indices of the
// documents that received the patch (or the index of the appended document).
// After a Reject or Unspec the stream state is undefined.
func (s *Stream) MergeDocument(patch *Doc) (res Result, targets []int) {
	anc := map[string]bool{}
	patch.ancestors(anc)
	data := patch.Data
	if m, ok := data.(map[string]any); ok {
		if pat, has := m["$match"]; has {
			rest := map[string]any{}
			for k, v := range m {
				if k != "$match" {
					rest[k] = v
				}
			}
			patch.Data = rest
			if pat == nil {
				n := &Doc{ID: patch.ID + "|matchnull", Data: core.Clone(rest)}
				s.Docs = append(s.Docs, n)
				patch.Parents = append(patch.Parents, n)
				return acc(nil), []int{len(s.Docs) - 1}
			}
			if containsNull(pat) {
				return uns("document $match containing null"), nil
			}
			var t []int
			for i, d := range s.Docs {
				if anc[d.ID] {
					switch Match(d.Data, pat) {
					case 1:
						t = append(t, i)
					case 2:
						return uns("match unspecified"), nil
					}
				}
			}
			if len(t) == 0 {
				for i, d := range s.Docs {
					switch Match(d.Data, pat) {
					case 1:
						t = append(t, i)
					case 2:
						return uns("match unspecified"), nil
					}
				}
			}
			if len(t) == 0 {
				return rej("document $match matched nothing"), nil
			}
			return s.apply(patch, t), t
		}
	}
	var t []int
	for i, d := range s.Docs {
		if anc[d.ID] {
			t = append(t, i)
		}
	}
	if len(t) == 0 {
		s.Docs = append(s.Docs, patch)
		patch.Data = core.Clone(patch.Data)
		return acc(nil), []int{len(s.Docs) - 1}
	}
	return s.apply(patch, t), t
}

func (s *Stream) apply(patch *Doc, targets []int) Result {
	worst := Result{V: Accept}
	for _, i := range targets {
		d := s.Docs[i]
		r := Merge(d.Data, patch.Data)
		if r.V == Reject {
			return r
		}
		if r.V == Unspec {
			worst = r
			continue
		}
		d.Data = r.Val
		patch.Parents = append(patch.Parents, d)
	}
	return worst
}

// ---------------------------------------------------------------- final

// interpreted reports whether evaluation would interpret something left in the
// tree (beyond what Final models): then Final's verdict is Unspec.
func interpreted(v any, root bool) (bool, string) {
	switch x := v.(type) {
	case string:
		return interpretedString(x)
	case map[string]any:
		for _, k := range core.SortedKeys(x) {
			switch k {
			case "$merge", "$encode", "$decode", "$repeat":
				return true, "key " + k
			case "$replace":
				if _, ok := x[k].(bool); !ok {
					return true, "key $replace"
				}
			case "$output":
				if _, ok := x[k].(bool); ok {
					return true, "key $output"
				}
			case "$value":
				if len(x) == 1 {
					return true, "lone $value"
				}
			}
			if y, why := interpretedString(k); y {
				return true, why
			}
			if y, why := interpreted(x[k], false); y {
				return true, why
			}
		}
	case []any:
		for _, e := range x {
			if y, why := interpreted(e, false); y {
				return true, why
			}
		}
	}
	return false, ""
}

func interpretedString(s string) (bool, string) {
	if len(s) >= 7 && s[:7] == "$merge:" {
		return true, "$merge: string"
	}
	if len(s) >= 9 && s[:9] == "$replace:" {
		return true, "$replace: string"
	}
	if len(s) >= 5 && s[:5] == "$env:" {
		return true, "$env string"
	}
	if s == "$repeat" {
		return true, "$repeat string"
	}
	if len(s) >= 3 && s[:2] == `$"` && s[len(s)-1] == '"' {
		return true, "interpolation"
	}
	return false, ""
}

// StrayMarker reports whether s is $required or $ followed by a lowercase
// letter (what must never reach the output).
func StrayMarker(s string) bool {
	if s == "$required" {
		return true
	}
	r := []rune(s)
	return len(r) >= 2 && r[0] == '$' && isLower(r[1])
}

func isLower(r rune) bool { return unicode.IsLower(r) }

// Final is the evaluation of a merged tree that holds no evaluation-time
// directive: drop nulls, reject stray markers, unescape $$.
// A nil Val with Accept means "emits nothing".
func Final(v any) Result {
	// $merge/$replace keys are looked at before null entries are dropped,
	// everything later after: consult both views.
	if y, why := interpreted(v, true); y {
		return uns("evaluation directive present: %s", why)
	}
	v = DropNulls(v)
	if y, why := interpreted(v, true); y {
		return uns("evaluation directive present: %s", why)
	}
	if v == nil {
		return acc(nil)
	}
	return final(v)
}

func final(v any) Result {
	switch x := v.(type) {
	case string:
		if StrayMarker(x) {
			return rej("stray marker %q", x)
		}
		return acc(unescape(x))
	case map[string]any:
		if _, ok := x["$value"]; ok && len(x) > 1 {
			return rej("$value with extra keys")
		}
		if b, ok := x["$replace"].(bool); ok {
			_ = b
			return rej("$replace: bool left in a map")
		}
		out := map[string]any{}
		for _, k := range core.SortedKeys(x) {
			c := x[k]
			if c == nil {
				continue
			}
			r := final(c)
			if r.V != Accept {
				return r
			}
			if StrayMarker(k) {
				return rej("stray marker key %q", k)
			}
			uk := unescape(k)
			if _, dup := out[uk]; dup {
				return uns("unescaped keys collide: %q", uk)
			}
			out[uk] = r.Val
		}
		return acc(out)
	case []any:
		out := []any{}
		for _, c := range x {
			if c == nil {
				continue
			}
			r := final(c)
			if r.V != Accept {
				return r
			}
			out = append(out, r.Val)
		}
		return acc(out)
	default:
		return acc(v)
	}
}

func unescape(s string) string {
	out := make([]byte, 0, len(s))
	for i := 0; i < len(s); i++ {
		if s[i] == '$' && i+1 < len(s) && s[i+1] == '$' {
			out = append(out, '$')
			i++
			continue
		}
		out = append(out, s[i])
	}
	return string(out)
}

// SortStrings is a tiny helper used by several checks.
func SortStrings(s []string) []string { sort.Strings(s); return s }

// DropNulls removes null map values and null list entries recursively.
func DropNulls(v any) any {
	switch x := v.(type) {
	case map[string]any:
		m := make(map[string]any, len(x))
		for k, c := range x {
			if c == nil {
				continue
			}
			m[k] = DropNulls(c)
		}
		return m
	case []any:
		l := []any{}
		for _, c := range x {
			if c == nil {
				continue
			}
			l = append(l, DropNulls(c))
		}
		return l
	default:
		return v
	}
}
