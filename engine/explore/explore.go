//go:build instr

// Package explore is E4: the stateless choice-point explorer. An execution is
// a function of its choice sequence; the search replays a prefix (a diverging
// or out-of-range choice is a hard error), takes choice 0 afterwards, and
// branches on every later point whose alternative stays within the deviation
// bound.
package explore

import (
	"fmt"
	"time"

	"github.com/gopatchy/bkl"
	"github.com/gopatchy/bkl/bklvsync"
)

type Point struct {
	N      int  // number of alternatives
	Choice int  // alternative taken
	Free   bool // alternatives here do not count as deviations
}

type chooser struct {
	prefix []int
	pos    int
	trace  []Point
}

func (c *chooser) choose(n int, free bool) int {
	ch := 0
	if c.pos < len(c.prefix) {
		ch = c.prefix[c.pos]
		if ch >= n {
			panic(fmt.Sprintf("explore: replay diverged: choice %d of %d at point %d", ch, n, c.pos))
		}
	}
	c.pos++
	c.trace = append(c.trace, Point{N: n, Choice: ch, Free: free})
	return ch
}

type Result struct {
	Executions  int
	MaxPoints   int
	Outcomes    map[string]int
	Capped      bool
	FirstByObs  map[string][]int // one choice sequence per distinct observation
	BoundDone   int
	Divergences int
	// scheduler only
	SpawnedThreads int  // goroutines started by the code under test, over all executions
	Deadlocks      int  // executions that ended with live threads and none enabled
	Stuck          bool // a thread blocked outside the scheduler: exploration abandoned
	StuckAt        string
}

const TickSentinel = "bklv: step budget exceeded"

var ticks, tickBudget int64

// WithBudget runs f with the deterministic step budget; returns true if the
// budget was exceeded.
func WithBudget(budget int64, f func()) (exceeded bool, used int64) {
	ticks, tickBudget = 0, budget
	bkl.BklvTickFn = func() {
		ticks++
		if ticks > tickBudget {
			panic(TickSentinel)
		}
	}
	defer func() {
		bkl.BklvTickFn = nil
		used = ticks
		if r := recover(); r != nil {
			if s, ok := r.(string); ok && s == TickSentinel {
				exceeded = true
				return
			}
			panic(r)
		}
	}()
	f()
	return false, ticks
}

// MapOrders runs body under every map-iteration order with at most bound
// non-default picks. body returns the observation of that execution.
func MapOrders(bound, maxExec int, body func() string) *Result {
	return MapOrdersAt(bound, maxExec, func(site string) bool { return site == "range" }, body)
}

// MapOrdersAt is MapOrders restricted to the choice sites accepted by sites
// ("range": range statements over maps; "keys": maps.Keys/Values/All calls). A
// site that is not controlled yields keys in ascending order.
func MapOrdersAt(bound, maxExec int, sites func(string) bool, body func() string) *Result {
	res := &Result{Outcomes: map[string]int{}, FirstByObs: map[string][]int{}, BoundDone: bound}
	var rec func(prefix []int)
	rec = func(prefix []int) {
		if res.Executions >= maxExec {
			res.Capped = true
			return
		}
		c := &chooser{prefix: prefix}
		bkl.BklvChoose = func(site string, n int) int {
			if !sites(site) {
				return 0
			}
			return c.choose(n, false)
		}
		obs := func() (o string) {
			defer func() {
				bkl.BklvChoose = nil
				if r := recover(); r != nil {
					o = fmt.Sprintf("PANIC: %v", r)
				}
			}()
			return body()
		}()
		if c.pos < len(prefix) {
			res.Divergences++ // execution ended before the prefix was consumed
		}
		res.Executions++
		if len(c.trace) > res.MaxPoints {
			res.MaxPoints = len(c.trace)
		}
		res.Outcomes[obs]++
		if _, ok := res.FirstByObs[obs]; !ok {
			seq := make([]int, len(c.trace))
			for i, p := range c.trace {
				seq[i] = p.Choice
			}
			res.FirstByObs[obs] = seq
		}
		devs := 0
		for i, p := range c.trace {
			if i >= len(prefix) {
				if devs+1 <= bound {
					for alt := 1; alt < p.N; alt++ {
						np := make([]int, i+1)
						for j := 0; j < i; j++ {
							np[j] = c.trace[j].Choice
						}
						np[i] = alt
						rec(np)
					}
				}
			}
			if p.Choice != 0 && !p.Free {
				devs++
			}
		}
	}
	rec(nil)
	return res
}

// ---- cooperative scheduler over shared-variable access points, sync operations and go statements

type thread struct {
	gate     chan struct{}
	done     bool
	obs      string
	accesses int
	root     int         // the body this thread (transitively) belongs to
	waiting  func() bool // non-nil while blocked in the scheduler
	waitWhat string
}

type event struct {
	tid      int
	finished bool
}

// StuckLimit bounds the real time one scheduled step may take: a thread that does not come
// back within it is blocked in an operation the scheduler does not model (a channel, a
// sync.Cond, ...). The exploration is then abandoned and says so (Result.Stuck) - it is a limit
// of the method, not a verdict.
var StuckLimit = 30 * time.Second

type sched struct {
	ths  []*thread
	back chan event
	cur  int
}

func (s *sched) Yield(what string) {
	t := s.ths[s.cur]
	t.accesses++
	s.back <- event{tid: s.cur}
	<-t.gate
}

func (s *sched) WaitUntil(what string, cond func() bool) {
	if cond() {
		return
	}
	t := s.ths[s.cur]
	t.waiting, t.waitWhat = cond, what
	s.back <- event{tid: s.cur}
	<-t.gate
	t.waiting = nil
}

// Go starts f as a new thread of the schedule; the spawn is a scheduling point.
func (s *sched) Go(f func()) {
	parent := s.ths[s.cur]
	t := &thread{gate: make(chan struct{}), root: parent.root}
	id := len(s.ths)
	s.ths = append(s.ths, t)
	go func() {
		<-t.gate
		defer func() {
			if r := recover(); r != nil {
				// an unrecovered panic in a goroutine takes the process down
				s.ths[t.root].obs += fmt.Sprintf(" GOROUTINE-PANIC: %v", r)
			}
			t.done = true
			s.back <- event{tid: id, finished: true}
		}()
		f()
	}()
	s.Yield("go")
}

// Schedules runs the bodies as cooperative threads and explores every
// interleaving of their scheduling points - accesses to mutable package-level
// variables, Lock/Wait/Do of the sync stand-in, go statements (each new goroutine
// becomes a thread) - with at most bound pre-emptions. It returns the per-body
// observations of every execution.
func Schedules(bound, maxExec int, bodies []func() string, check func(obs []string, schedule []int)) *Result {
	res := &Result{Outcomes: map[string]int{}, FirstByObs: map[string][]int{}, BoundDone: bound}
	var rec func(prefix []int)
	rec = func(prefix []int) {
		if res.Executions >= maxExec {
			res.Capped = true
			return
		}
		if res.Stuck {
			return
		}
		c := &chooser{prefix: prefix}
		n := len(bodies)
		s := &sched{ths: make([]*thread, n), back: make(chan event), cur: -1}
		bkl.BklvChoose = func(string, int) int { return 0 } // map order fixed: smallest key first
		bkl.BklvSharedFn = func(name string) { s.Yield(name) }
		bklvsync.Sched = s
		defer func() {
			bkl.BklvSharedFn = nil
			bkl.BklvChoose = nil
			bklvsync.Sched = nil
		}()
		for i := range bodies {
			s.ths[i] = &thread{gate: make(chan struct{}), root: i}
			go func(i int) {
				t := s.ths[i]
				<-t.gate
				defer func() {
					if r := recover(); r != nil {
						t.obs = fmt.Sprintf("PANIC: %v", r) + t.obs
					}
					t.done = true
					s.back <- event{tid: i, finished: true}
				}()
				o := bodies[i]()
				t.obs = o + t.obs
			}(i)
		}
		steps := 0
		deadlock := false
		for {
			// enabled threads in canonical order: current first, then ascending ids
			var en []int
			runnable := func(t *thread) bool { return !t.done && (t.waiting == nil || t.waiting()) }
			curEnabled := s.cur >= 0 && runnable(s.ths[s.cur])
			if curEnabled {
				en = append(en, s.cur)
			}
			live := 0
			for i, t := range s.ths {
				if !t.done {
					live++
				}
				if i != s.cur && runnable(t) {
					en = append(en, i)
				}
			}
			if len(en) == 0 {
				deadlock = live > 0
				break
			}
			pick := 0
			if len(en) > 1 {
				pick = c.choose(len(en), !curEnabled)
			}
			s.cur = en[pick]
			s.ths[s.cur].gate <- struct{}{}
			select {
			case <-s.back:
			case <-time.After(StuckLimit):
				res.Stuck = true
				res.StuckAt = fmt.Sprintf("thread %d did not reach a scheduling point within %s: blocked in an operation the scheduler does not model", s.cur, StuckLimit)
				return
			}
			steps++
			if steps > 1_000_000 {
				panic("explore: schedule did not quiesce")
			}
		}
		bkl.BklvSharedFn = nil
		bkl.BklvChoose = nil
		bklvsync.Sched = nil
		res.Executions++
		if len(s.ths) > n {
			res.SpawnedThreads += len(s.ths) - n
		}
		if len(c.trace) > res.MaxPoints {
			res.MaxPoints = len(c.trace)
		}
		obs := make([]string, n)
		for i := 0; i < n; i++ {
			obs[i] = s.ths[i].obs
		}
		if deadlock {
			res.Deadlocks++
			for _, t := range s.ths {
				if !t.done {
					obs[t.root] += " DEADLOCK(" + t.waitWhat + ")"
				}
			}
		}
		seq := make([]int, len(c.trace))
		for i, p := range c.trace {
			seq[i] = p.Choice
		}
		key := fmt.Sprint(obs)
		res.Outcomes[key]++
		if _, ok := res.FirstByObs[key]; !ok {
			res.FirstByObs[key] = seq
		}
		check(obs, seq)
		devs := 0
		for i, p := range c.trace {
			if i >= len(prefix) {
				cost := 1
				if p.Free {
					cost = 0
				}
				if devs+cost <= bound {
					for alt := 1; alt < p.N; alt++ {
						np := make([]int, i+1)
						for j := 0; j < i; j++ {
							np[j] = c.trace[j].Choice
						}
						np[i] = alt
						rec(np)
					}
				}
			}
			if p.Choice != 0 && !p.Free {
				devs++
			}
		}
	}
	rec(nil)
	return res
}
