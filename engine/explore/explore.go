//go:build instr

// Package explore is E4: the stateless choice-point explorer. An execution is
// a function of its choice sequence; the search replays a prefix (a diverging
// or out-of-range choice is a hard error), takes choice 0 afterwards, and
// branches on every later point whose alternative stays within the deviation
// bound.
package explore

import (
	"fmt"

	"github.com/gopatchy/bkl"
)

type Point struct {
	N      int  // number of alternatives
	Choice int  // alternative taken
	Free   bool // alternatives here do not count as deviations
}

type chooser struct {
	prefix []int
	pos    int
	trace  []Point
}

func (c *chooser) choose(n int, free bool) int {
	ch := 0
	if c.pos < len(c.prefix) {
		ch = c.prefix[c.pos]
		if ch >= n {
			panic(fmt.Sprintf("explore: replay diverged: choice %d of %d at point %d", ch, n, c.pos))
		}
	}
	c.pos++
	c.trace = append(c.trace, Point{N: n, Choice: ch, Free: free})
	return ch
}

type Result struct {
	Executions  int
	MaxPoints   int
	Outcomes    map[string]int
	Capped      bool
	FirstByObs  map[string][]int // one choice sequence per distinct observation
	BoundDone   int
	Divergences int
}

const TickSentinel = "bklv: step budget exceeded"

var ticks, tickBudget int64

// WithBudget runs f with the deterministic step budget; returns true if the
// budget was exceeded.
func WithBudget(budget int64, f func()) (exceeded bool, used int64) {
	ticks, tickBudget = 0, budget
	bkl.BklvTickFn = func() {
		ticks++
		if ticks > tickBudget {
			panic(TickSentinel)
		}
	}
	defer func() {
		bkl.BklvTickFn = nil
		used = ticks
		if r := recover(); r != nil {
			if s, ok := r.(string); ok && s == TickSentinel {
				exceeded = true
				return
			}
			panic(r)
		}
	}()
	f()
	return false, ticks
}

// MapOrders runs body under every map-iteration order with at most bound
// non-default picks. body returns the observation of that execution.
func MapOrders(bound, maxExec int, body func() string) *Result {
	return MapOrdersAt(bound, maxExec, func(site string) bool { return site == "range" }, body)
}

// MapOrdersAt is MapOrders restricted to the choice sites accepted by sites
// ("range": range statements over maps; "keys": maps.Keys/Values/All calls). A
// site that is not controlled yields keys in ascending order.
func MapOrdersAt(bound, maxExec int, sites func(string) bool, body func() string) *Result {
	res := &Result{Outcomes: map[string]int{}, FirstByObs: map[string][]int{}, BoundDone: bound}
	var rec func(prefix []int)
	rec = func(prefix []int) {
		if res.Executions >= maxExec {
			res.Capped = true
			return
		}
		c := &chooser{prefix: prefix}
		bkl.BklvChoose = func(site string, n int) int {
			if !sites(site) {
				return 0
			}
			return c.choose(n, false)
		}
		obs := func() (o string) {
			defer func() {
				bkl.BklvChoose = nil
				if r := recover(); r != nil {
					o = fmt.Sprintf("PANIC: %v", r)
				}
			}()
			return body()
		}()
		if c.pos < len(prefix) {
			res.Divergences++ // execution ended before the prefix was consumed
		}
		res.Executions++
		if len(c.trace) > res.MaxPoints {
			res.MaxPoints = len(c.trace)
		}
		res.Outcomes[obs]++
		if _, ok := res.FirstByObs[obs]; !ok {
			seq := make([]int, len(c.trace))
			for i, p := range c.trace {
				seq[i] = p.Choice
			}
			res.FirstByObs[obs] = seq
		}
		devs := 0
		for i, p := range c.trace {
			if i >= len(prefix) {
				if devs+1 <= bound {
					for alt := 1; alt < p.N; alt++ {
						np := make([]int, i+1)
						for j := 0; j < i; j++ {
							np[j] = c.trace[j].Choice
						}
						np[i] = alt
						rec(np)
					}
				}
			}
			if p.Choice != 0 && !p.Free {
				devs++
			}
		}
	}
	rec(nil)
	return res
}

// ---- cooperative scheduler over shared-variable access points

type thread struct {
	gate     chan struct{}
	done     bool
	obs      string
	accesses int
}

type event struct {
	tid      int
	finished bool
}

// Schedules runs the bodies as cooperative threads and explores every
// interleaving of their shared-variable access points with at most bound
// pre-emptions. It returns the per-thread observations of every execution.
func Schedules(bound, maxExec int, bodies []func() string, check func(obs []string, schedule []int)) *Result {
	res := &Result{Outcomes: map[string]int{}, FirstByObs: map[string][]int{}, BoundDone: bound}
	var rec func(prefix []int)
	rec = func(prefix []int) {
		if res.Executions >= maxExec {
			res.Capped = true
			return
		}
		c := &chooser{prefix: prefix}
		n := len(bodies)
		ths := make([]*thread, n)
		back := make(chan event)
		cur := -1
		bkl.BklvChoose = func(string, int) int { return 0 } // map order fixed: smallest key first
		bkl.BklvSharedFn = func(name string) {
			t := ths[cur]
			t.accesses++
			me := cur
			back <- event{tid: me}
			<-t.gate
		}
		for i := range bodies {
			ths[i] = &thread{gate: make(chan struct{})}
			go func(i int) {
				<-ths[i].gate
				defer func() {
					if r := recover(); r != nil {
						ths[i].obs = fmt.Sprintf("PANIC: %v", r)
					}
					ths[i].done = true
					back <- event{tid: i, finished: true}
				}()
				ths[i].obs = bodies[i]()
			}(i)
		}
		steps := 0
		for {
			// enabled threads in canonical order: current first, then ascending ids
			var en []int
			if cur >= 0 && !ths[cur].done {
				en = append(en, cur)
			}
			for i := range ths {
				if !ths[i].done && i != cur {
					en = append(en, i)
				}
			}
			if len(en) == 0 {
				break
			}
			pick := 0
			if len(en) > 1 {
				free := cur < 0 || ths[cur].done
				pick = c.choose(len(en), free)
			}
			cur = en[pick]
			ths[cur].gate <- struct{}{}
			<-back
			steps++
			if steps > 1_000_000 {
				panic("explore: schedule did not quiesce")
			}
		}
		bkl.BklvSharedFn = nil
		bkl.BklvChoose = nil
		res.Executions++
		if len(c.trace) > res.MaxPoints {
			res.MaxPoints = len(c.trace)
		}
		obs := make([]string, n)
		for i := range ths {
			obs[i] = ths[i].obs
		}
		seq := make([]int, len(c.trace))
		for i, p := range c.trace {
			seq[i] = p.Choice
		}
		key := fmt.Sprint(obs)
		res.Outcomes[key]++
		if _, ok := res.FirstByObs[key]; !ok {
			res.FirstByObs[key] = seq
		}
		check(obs, seq)
		devs := 0
		for i, p := range c.trace {
			if i >= len(prefix) {
				cost := 1
				if p.Free {
					cost = 0
				}
				if devs+cost <= bound {
					for alt := 1; alt < p.N; alt++ {
						np := make([]int, i+1)
						for j := 0; j < i; j++ {
							np[j] = c.trace[j].Choice
						}
						np[i] = alt
						rec(np)
					}
				}
			}
			if p.Choice != 0 && !p.Free {
				devs++
			}
		}
	}
	rec(nil)
	return res
}
