package checks

import (
	"fmt"
	"math"
	"os"
	"path/filepath"
	"runtime/debug"
	"strings"

	"verif/core"
	"verif/emit"
)

// C04 — results do not depend on which format a layer is written in.

func init() {
	core.Register(&core.Check{ID: "C04", Title: "format independence", Build: buildC04})
}

var c04Numbers = []any{0, 1, -1, 2147483648, 9007199254740993, math.MaxInt64, math.MinInt64, 0.1, 1.5, 2.0, 1e21, 1e-7, -0.5, 123456789.125}
var c04Strings = []string{"x", "1", "true", "a b", "é", "$$A", "null", "1.5"}

func c04Base(n, m any, s string) map[string]any {
	return map[string]any{"a": n, "s": s, "l": []any{map[string]any{"k": n}, map[string]any{"k": m}}, "r": "keep"}
}

type c04Upper struct {
	name string
	doc  func(n, m any, s string) map[string]any
}

var c04Uppers = []c04Upper{
	{"same-scalar(useless)", func(n, m any, s string) map[string]any { return map[string]any{"a": n} }},
	{"other-scalar", func(n, m any, s string) map[string]any { return map[string]any{"a": m} }},
	{"list-$match", func(n, m any, s string) map[string]any {
		return map[string]any{"l": []any{map[string]any{"$match": map[string]any{"k": n}, "z": 1}}}
	}},
	{"list-$delete", func(n, m any, s string) map[string]any {
		return map[string]any{"l": []any{map[string]any{"$delete": map[string]any{"k": n}}}}
	}},
	{"doc-$match", func(n, m any, s string) map[string]any {
		return map[string]any{"$match": map[string]any{"a": n}, "y": 2}
	}},
	{"doc-$match-miss", func(n, m any, s string) map[string]any {
		return map[string]any{"$match": map[string]any{"a": m}, "y": 2}
	}},
	{"$repeat", func(n, m any, s string) map[string]any { return map[string]any{"$repeat": 2, "i": "$repeat"} }},
	{"list-$match-$value", func(n, m any, s string) map[string]any {
		return map[string]any{"l": []any{map[string]any{"$match": map[string]any{"k": m}, "$value": map[string]any{"k": n, "v": m}}}}
	}},
	{"same-string(useless)", func(n, m any, s string) map[string]any { return map[string]any{"s": s} }},
	{"$match-string", func(n, m any, s string) map[string]any {
		return map[string]any{"$match": map[string]any{"s": s}, "t": s}
	}},
	{"nested-repeat-count", func(n, m any, s string) map[string]any {
		return map[string]any{"q": []any{map[string]any{"$repeat": 3, "v": n}}}
	}},
	{"encode-number", func(n, m any, s string) map[string]any {
		return map[string]any{"e": map[string]any{"$encode": "json", "$value": map[string]any{"n": n, "m": m}}}
	}},
}

var c04Second = []c04Upper{
	{"then-other-scalar", func(n, m any, s string) map[string]any { return map[string]any{"a": 77} }},
	{"then-list-$match", func(n, m any, s string) map[string]any {
		return map[string]any{"l": []any{map[string]any{"$match": map[string]any{"k": n}, "w": 2}}}
	}},
	{"then-doc-$match", func(n, m any, s string) map[string]any {
		return map[string]any{"$match": map[string]any{"l": []any{map[string]any{"k": m}}}, "q": 1}
	}},
}

type c04Set struct {
	Name   string  `json:"name"`
	Layers [][]any `json:"layers"`
}

func c04Sets(tier string) []c04Set {
	var sets []c04Set
	nn := len(c04Numbers)
	for i, n := range c04Numbers {
		m := c04Numbers[(i+1)%nn]
		s := c04Strings[i%len(c04Strings)]
		base := c04Base(n, m, s)
		sets = append(sets, c04Set{fmt.Sprintf("base n=%v", n), [][]any{{base}}})
		two := []any{base, c04Base(m, n, s)}
		for _, u := range c04Uppers {
			up := u.doc(n, m, s)
			sets = append(sets, c04Set{fmt.Sprintf("%s n=%v m=%v", u.name, n, m), [][]any{{base}, {up}}})
			sets = append(sets, c04Set{fmt.Sprintf("2docs %s n=%v m=%v", u.name, n, m), [][]any{two, {up}}})
			if tier == "thorough" || i%3 == 0 {
				for _, u2 := range c04Second {
					sets = append(sets, c04Set{fmt.Sprintf("%s %s n=%v m=%v", u.name, u2.name, n, m), [][]any{{base}, {up}, {u2.doc(n, m, s)}}})
				}
			}
		}
		// upper with two documents
		sets = append(sets, c04Set{fmt.Sprintf("2doc-upper n=%v", n), [][]any{two, {map[string]any{"$match": map[string]any{"a": n}, "y": 1}, map[string]any{"$match": map[string]any{"a": m}, "y": 2}}}})
	}
	// empty-map documents: the only spelling in TOML is empty text
	e := map[string]any{}
	sets = append(sets,
		c04Set{"empty-doc alone", [][]any{{e}}},
		c04Set{"empty-doc matched by {}", [][]any{{e}, {map[string]any{"$match": map[string]any{}, "y": 1}}}},
		c04Set{"stream with trailing empty doc", [][]any{{map[string]any{"a": 1}, e}, {map[string]any{"$match": map[string]any{}, "y": 1}}}},
		c04Set{"stream with leading empty doc", [][]any{{e, map[string]any{"a": 1}}, {map[string]any{"z": 2}}}},
		c04Set{"empty upper layer", [][]any{{map[string]any{"a": 1}}, {e}}},
		c04Set{"nested empty containers", [][]any{{map[string]any{"m": map[string]any{}, "l": []any{}, "k": map[string]any{"e": map[string]any{}}}}, {map[string]any{"m": map[string]any{"x": 1}}}}},
	)
	// values beyond the usual buffer sizes: a 70 000-character string (longer than a 64 KiB line buffer)
	// and a 5 000-entry list, followed by more content and a second document
	long := strings.Repeat("long-line ", 7000)
	many := make([]any, 5000)
	for i := range many {
		many[i] = i
	}
	sets = append(sets,
		c04Set{"very long string value", [][]any{{map[string]any{"a": 1, "s": long, "z": "after"}, map[string]any{"second": true}}, {map[string]any{"$match": map[string]any{"a": 1}, "y": 1}}}},
		c04Set{"very long list", [][]any{{map[string]any{"a": 1, "l": many, "z": "after"}}, {map[string]any{"z": "upper"}}}},
	)
	// non-ASCII text in a multi-document stream (byte and character offsets differ before a separator)
	sets = append(sets,
		c04Set{"non-ascii before a document separator", [][]any{{map[string]any{"a": 1, "s": "é€😀 naïve"}, map[string]any{"a": 2, "t": "日本語"}, map[string]any{"a": 3}}, {map[string]any{"$match": map[string]any{"a": 2}, "y": "ü"}}}},
		c04Set{"non-ascii keys", [][]any{{map[string]any{"clé": 1, "ключ": map[string]any{"値": "x"}}, map[string]any{"b": 2}}, {map[string]any{"clé": 2}}}},
	)
	return sets
}

type c04Obs struct {
	status string
	docs   string
	out    map[string]string
}

var c04Names = []string{"a", "a.b", "a.b.c"}

// c04Eval writes the layer set under one spelling assignment and evaluates it.
func c04Eval(set c04Set, assign []string) (c04Obs, bool) {
	dir := scratchDir()
	defer os.RemoveAll(dir)
	for li, docs := range set.Layers {
		text, ok := emit.Stream(assign[li], docs)
		if !ok {
			return c04Obs{}, false
		}
		if err := os.WriteFile(filepath.Join(dir, c04Names[li]+"."+emit.Ext(assign[li])), []byte(text), 0o644); err != nil {
			return c04Obs{}, false
		}
	}
	top := len(set.Layers) - 1
	p := newParser()
	err := p.MergeFileLayers(filepath.Join(dir, c04Names[top]+"."+emit.Ext(assign[top])))
	o := c04Obs{out: map[string]string{}}
	if err != nil {
		o.status = "merge-error"
		return o, true
	}
	o.docs = core.Canon(docData(p))
	for _, f := range []string{"json", "yaml", "toml"} {
		b, err := p.Output(f)
		if err != nil {
			o.out[f] = "ERR"
			continue
		}
		o.out[f] = string(b)
	}
	o.status = "ok"
	if o.out["json"] == "ERR" {
		o.status = "output-error"
	}
	return o, true
}

func c04Assignments(n int) [][]string {
	var out [][]string
	var rec func(cur []string)
	rec = func(cur []string) {
		if len(cur) == n {
			out = append(out, append([]string{}, cur...))
			return
		}
		for _, s := range emit.Spellings {
			rec(append(cur, s))
		}
	}
	rec(nil)
	return out
}

func buildC04(tier string) *core.Plan {
	sets := c04Sets(tier)
	differential := core.Space{Name: "all-format-assignments", N: int64(len(sets)), Chunk: 2,
		Desc: func(i int64) any { return sets[i] },
		Run: func(c *core.Ctx, i int64) {
			set := sets[i]
			assigns := c04Assignments(len(set.Layers))
			base, ok := c04Eval(set, assigns[0]) // all-JSON
			c.Eval()
			c.Trans(len(set.Layers) + 3)
			if !ok {
				c.Fail("harness", "json-not-emittable", set.Name, nil)
				return
			}
			c.State(base.status + base.docs)
			c.Outcome("baseline-" + base.status)
			c.Nontrivial()
			for _, a := range assigns[1:] {
				o, ok := c04Eval(set, a)
				if !ok {
					c.Outcome("not-expressible-in-format")
					continue
				}
				c.Eval()
				c.Trans(len(set.Layers) + 3)
				c.Validated()
				wit := fmt.Sprintf("%s: %v vs all-json", set.Name, a)
				if o.status != base.status {
					c.Outcome("STATUS-DEPENDS-ON-FORMAT")
					c.Fail("format-independence", "status-differs", wit, map[string]any{"all_json": base.status, "this": o.status, "layers": set.Layers})
					return
				}
				if o.docs != base.docs {
					c.Outcome("VALUES-DEPEND-ON-FORMAT")
					c.Fail("format-independence", "merged-values-differ", wit, map[string]any{"all_json": base.docs, "this": o.docs})
					return
				}
				for f, b := range base.out {
					if o.out[f] != b {
						c.Outcome("OUTPUT-DEPENDS-ON-FORMAT")
						c.Fail("format-independence", "output-differs", wit, map[string]any{"format": f, "all_json": b, "this": o.out[f]})
						return
					}
				}
			}
			c.Outcome("independent")
		}}

	// YAML anchors / merge keys and TOML dotted keys / tables against their expanded JSON form
	type tmpl struct {
		name, ext, text string
		expanded        any
	}
	var tmpls []tmpl
	for i, n := range c04Numbers {
		m := c04Numbers[(i+1)%len(c04Numbers)]
		ns, ms := emit.Num(n), emit.Num(m)
		tmpls = append(tmpls,
			tmpl{"yaml-anchor-alias", "yaml", fmt.Sprintf("base: &b {k: %s}\nl: [*b, {k: %s}]\nm:\n  <<: *b\n  z: 1\n", ns, ms),
				map[string]any{"base": map[string]any{"k": n}, "l": []any{map[string]any{"k": n}, map[string]any{"k": m}}, "m": map[string]any{"k": n, "z": 1}}},
			tmpl{"yaml-merge-list", "yaml", fmt.Sprintf("x: &x {a: %s, b: 1}\ny: &y {a: %s, c: 2}\nz:\n  <<: [*x, *y]\n  d: 3\n", ns, ms),
				map[string]any{"x": map[string]any{"a": n, "b": 1}, "y": map[string]any{"a": m, "c": 2}, "z": map[string]any{"a": n, "b": 1, "c": 2, "d": 3}}},
			tmpl{"yaml-merge-list-equal-scalar-and-nested-maps", "yaml", fmt.Sprintf("x: &x {same: 1, n: {p: %s}, f: 2.0}\ny: &y {same: 1, n: {q: %s}}\nz:\n  <<: [*x, *y]\n  d: 3\nw:\n  <<: *x\n  n: {r: 0}\n", ns, ms),
				map[string]any{"x": map[string]any{"same": 1, "n": map[string]any{"p": n}, "f": 2.0}, "y": map[string]any{"same": 1, "n": map[string]any{"q": m}},
					"z": map[string]any{"same": 1, "n": map[string]any{"p": n}, "f": 2.0, "d": 3}, "w": map[string]any{"same": 1, "n": map[string]any{"r": 0}, "f": 2.0}}},
			tmpl{"yaml-merge-override", "yaml", fmt.Sprintf("x: &x {a: %s}\nz:\n  a: %s\n  <<: *x\n", ns, ms),
				map[string]any{"x": map[string]any{"a": n}, "z": map[string]any{"a": m}}},
			tmpl{"yaml-block-scalars", "yaml", fmt.Sprintf("n: %s\ns: |\n  line1\n  line2\nt: >-\n  folded\n  text\nu: 'it''s'\n", ns),
				map[string]any{"n": n, "s": "line1\nline2\n", "t": "folded text", "u": "it's"}},
			tmpl{"yaml-anchor-name-reused-across-documents", "yaml", fmt.Sprintf("d: &d {k: %s}\nu: *d\n---\nd: &d {k: %s}\nu: *d\nw:\n  <<: *d\n", ns, ms),
				[]any{map[string]any{"d": map[string]any{"k": n}, "u": map[string]any{"k": n}}, map[string]any{"d": map[string]any{"k": m}, "u": map[string]any{"k": m}, "w": map[string]any{"k": m}}}},
			tmpl{"yaml-anchor-redefined", "yaml", fmt.Sprintf("a: &d {k: %s}\nb: *d\nc: &d {k: %s}\ne: *d\nf: [*d, *d]\n", ns, ms),
				map[string]any{"a": map[string]any{"k": n}, "b": map[string]any{"k": n}, "c": map[string]any{"k": m}, "e": map[string]any{"k": m}, "f": []any{map[string]any{"k": m}, map[string]any{"k": m}}}},
			tmpl{"yaml-alias-of-scalar-and-list", "yaml", fmt.Sprintf("s: &s %s\nl: &l [%s, *s]\nm: {x: *s, y: *l}\n", ns, ms),
				map[string]any{"s": n, "l": []any{m, n}, "m": map[string]any{"x": n, "y": []any{m, n}}}},
			tmpl{"yaml-bool-null-spellings", "yaml", fmt.Sprintf("t: [true, True, TRUE]\nf: [false, False, FALSE]\nn: [null, Null, NULL, ~]\nk: %s\n", ns),
				map[string]any{"t": []any{true, true, true}, "f": []any{false, false, false}, "n": []any{nil, nil, nil, nil}, "k": n}},
			tmpl{"jsonl-extension", "jsonl", fmt.Sprintf("{\"a\": %s, \"l\": [%s, 9007199254740993]}\n", ns, ms),
				map[string]any{"a": n, "l": []any{m, 9007199254740993}}},
			tmpl{"json-pretty-extension", "json-pretty", fmt.Sprintf("{\n  \"a\": %s,\n  \"l\": [\n    %s\n  ]\n}\n", ns, ms),
				map[string]any{"a": n, "l": []any{m}}},
			tmpl{"yml-extension", "yml", fmt.Sprintf("a: %s\nl:\n  - %s\n  - 9007199254740993\n", ns, ms),
				map[string]any{"a": n, "l": []any{m, 9007199254740993}}},
			tmpl{"toml-dotted", "toml", fmt.Sprintf("a.b.c = %s\na.b.d = %s\na.e = \"x\"\n", ns, ms),
				map[string]any{"a": map[string]any{"b": map[string]any{"c": n, "d": m}, "e": "x"}}},
			tmpl{"toml-tables", "toml", fmt.Sprintf("top = %s\n[a]\nx = %s\n[a.b]\ny = 1\n[[l]]\nk = %s\n[[l]]\nk = %s\n", ns, ms, ns, ms),
				map[string]any{"top": n, "a": map[string]any{"x": m, "b": map[string]any{"y": 1}}, "l": []any{map[string]any{"k": n}, map[string]any{"k": m}}}},
			tmpl{"yaml-crlf-line-ends", "yaml", fmt.Sprintf("a: %s\r\nb: x\r\nl:\r\n  - 1\r\n  - y\r\n", ns),
				map[string]any{"a": n, "b": "x", "l": []any{1, "y"}}},
			tmpl{"yaml-block-scalar-last", "yaml", fmt.Sprintf("k: %s\ns: |\n  x\n  y\n", ns),
				map[string]any{"k": n, "s": "x\ny\n"}},
			tmpl{"yaml-block-scalar-keep-last", "yaml", fmt.Sprintf("k: %s\ns: |+\n  x\n\n\n", ns),
				map[string]any{"k": n, "s": "x\n\n\n"}},
			tmpl{"yaml-quoted-merge-key-is-data", "yaml", fmt.Sprintf("\"<<\": {k: %s}\na: 2\nb: {'<<': 1}\n", ns),
				map[string]any{"<<": map[string]any{"k": n}, "a": 2, "b": map[string]any{"<<": 1}}},
			tmpl{"yaml-alias-as-key", "yaml", fmt.Sprintf("x: &k foo\n*k : %s\nm: {*k : 1}\n", ns),
				map[string]any{"x": "foo", "foo": n, "m": map[string]any{"foo": 1}}},
			tmpl{"yaml-crlf-stream", "yaml", fmt.Sprintf("a: %s\r\n---\r\nb: %s\r\n---\r\nc: x\r\n", ns, ms),
				[]any{map[string]any{"a": n}, map[string]any{"b": m}, map[string]any{"c": "x"}}},
			tmpl{"yaml-separator-with-trailing-blanks", "yaml", fmt.Sprintf("a: %s\n---  \nb: %s\n---\t\nc: x\n", ns, ms),
				[]any{map[string]any{"a": n}, map[string]any{"b": m}, map[string]any{"c": "x"}}},
			tmpl{"yaml-no-trailing-newline", "yaml", fmt.Sprintf("a: %s\nb: {c: %s}", ns, ms),
				map[string]any{"a": n, "b": map[string]any{"c": m}}},
			tmpl{"yaml-bom", "yaml", fmt.Sprintf("\ufeffa: %s\nb: x\n", ns),
				map[string]any{"a": n, "b": "x"}},
			tmpl{"yaml-explicit-tags-and-complex-key", "yaml", fmt.Sprintf("a: !!str %s\nb: !!int \"7\"\nc: !!float 2\n? |\n  k\n: v\n", ns),
				map[string]any{"a": emit.Num(n), "b": 7, "c": 2.0, "k\n": "v"}},
			tmpl{"json-escapes", "json", fmt.Sprintf("{\"n\": %s, \"s\": \"\\ud83d\\ude00 a\\/b \\u00e9 \\t\", \"k\\u0041\": 1}", ns),
				map[string]any{"n": n, "s": "😀 a/b é \t", "kA": 1}},
			tmpl{"json-no-trailing-newline-crlf", "json", fmt.Sprintf("{\r\n  \"a\": %s,\r\n  \"l\": [ %s ]\r\n}", ns, ms),
				map[string]any{"a": n, "l": []any{m}}},
			tmpl{"toml-no-trailing-newline-crlf", "toml", fmt.Sprintf("a = %s\r\n[t]\r\nk = %s", ns, ms),
				map[string]any{"a": n, "t": map[string]any{"k": m}}},
			tmpl{"toml-literal-strings", "toml", fmt.Sprintf("n = %s\ns = 'C:\\path'\nm = \"\"\"\nl1\nl2\"\"\"\n", ns),
				map[string]any{"n": n, "s": "C:\\path", "m": "l1\nl2"}},
		)
	}
	templates := core.Space{Name: "anchors-mergekeys-dottedkeys-vs-expanded", N: int64(len(tmpls)), Chunk: 4,
		Desc: func(i int64) any {
			return map[string]any{"name": tmpls[i].name, "text": tmpls[i].text, "expanded": tmpls[i].expanded}
		},
		Run: func(c *core.Ctx, i int64) {
			t := tmpls[i]
			dir := scratchDir()
			defer os.RemoveAll(dir)
			os.WriteFile(filepath.Join(dir, "t."+t.ext), []byte(t.text), 0o644)
			os.MkdirAll(filepath.Join(dir, "j"), 0o755)
			exp := emit.JSON(t.expanded) + "\n"
			if docs, ok := t.expanded.([]any); ok {
				exp, _ = emit.Stream("json", docs)
			}
			os.WriteFile(filepath.Join(dir, "j", "t.json"), []byte(exp), 0o644)
			c.Eval()
			c.Trans(4)
			p1, p2 := newParser(), newParser()
			e1 := p1.MergeFileLayers(filepath.Join(dir, "t."+t.ext))
			e2 := p2.MergeFileLayers(filepath.Join(dir, "j", "t.json"))
			c.Validated()
			c.Nontrivial()
			if e1 != nil || e2 != nil {
				c.Fail("template-vs-expanded", "load-error", t.name+": "+t.text, map[string]any{"template_error": errStr(e1), "json_error": errStr(e2)})
				return
			}
			if core.Canon(docData(p1)) != core.Canon(docData(p2)) {
				c.Outcome("TEMPLATE-DIFFERS")
				c.Fail("template-vs-expanded", "values-differ", t.name+": "+t.text, map[string]any{"template": docData(p1), "expanded": docData(p2)})
				return
			}
			c.Outcome("template-equal")
		}}

	// the emitters are in the trusted base: cross-check them against the independent Python parsers
	selfCheck := core.Space{Name: "emitter-cross-check-python", N: 1,
		Desc: func(i int64) any {
			return "every distinct layer document in every spelling parsed by Python json / PyYAML(1.2 core schema) / tomllib"
		},
		Run: func(c *core.Ctx, i int64) {
			dir := scratchDir()
			defer os.RemoveAll(dir)
			var items []pyItem
			var want [][]any
			seen := map[string]bool{}
			for _, set := range sets {
				for _, docs := range set.Layers {
					k := core.Canon(docs)
					if seen[k] {
						continue
					}
					seen[k] = true
					for _, sp := range emit.Spellings {
						text, ok := emit.Stream(sp, docs)
						if !ok {
							continue
						}
						fn := filepath.Join(dir, fmt.Sprintf("e%d.%s", len(items), emit.Ext(sp)))
						os.WriteFile(fn, []byte(text), 0o644)
						items = append(items, pyItem{fn, emit.Ext(sp)})
						want = append(want, docs)
					}
				}
			}
			res, err := pyParse(dir, items)
			if err != nil {
				c.Fail("harness", "python-bridge", "emitter-cross-check", err.Error())
				return
			}
			for k, r := range res {
				c.Eval()
				c.Trans(1)
				if r.Err != "" || !core.Equal(r.Docs, want[k]) {
					b, _ := os.ReadFile(items[k].File)
					c.Fail("harness", "emitter-disagrees-with-python", items[k].Format, map[string]any{"text": string(b), "python": r.Docs, "error": r.Err, "want": want[k]})
					return
				}
			}
			c.Extra("emitted_texts_cross_checked", int64(len(items)))
			c.Outcome("emitters-agree-with-python")
		}}

	return &core.Plan{
		Spaces: []core.Space{differential, templates, selfCheck, c04Repeated()},
		Rule: "logical layer sets (1-3 layers, 1-2 documents) built around every comparison bkl makes (useless override, list $match/$delete/$value, document $match, $repeat counts, $encode of numbers) over 14 boundary numbers and 8 look-alike strings, " +
			"each written under ALL 6^n assignments of {json, yaml-block, yaml-flow, toml-inline, toml-tables, toml-dotted} to the layers; YAML anchor/merge-key and TOML dotted-key/table templates against their expanded JSON",
		Assumptions: []string{"differential oracle: status, type-exact Documents() and output bytes in json/yaml/toml of every assignment equal those of the all-JSON assignment",
			"the harness emitters are trusted and cross-checked on every run against Python json, PyYAML with a YAML 1.2 core-schema resolver, and tomllib"},
		Bounds: map[string]any{"numbers": c04Numbers, "strings": c04Strings, "sets": len(sets), "spellings": emit.Spellings},
	}
}

// c04Repeated: the same layer read again and again in one process. What a format-specific reader
// accepts must not depend on how much it has read before (budgets, caches, counters that belong to
// one stream but live in the process): the 3 000th reading gives what the first gave, in every format.
func c04Repeated() core.Space {
	texts := []struct{ ext, text string }{
		{"yaml", "base: &b {k: 1, j: [1, 2]}\nl: [*b, *b, *b]\nm:\n  <<: *b\n  z: 1\nn: {<<: [*b], y: 2}\n"},
		{"yaml", "a: 1\n---\nb: [x, y]\n---\nc: {d: e}\n"},
		{"toml", "top = 1\n[a]\nx = 2\n[[l]]\nk = 1\n[[l]]\nk = 2\n"},
		{"json", "{\"a\": [1, 2, {\"b\": 9007199254740993}]}\n"},
		{"jsonl", "{\"a\": 1}\n{\"b\": 2}\n"},
	}
	const rounds = 3000
	return core.Space{Name: "same-layer-read-3000-times-in-one-process", N: int64(len(texts)), Chunk: 1,
		Desc: func(i int64) any { return texts[i] },
		Run: func(c *core.Ctx, i int64) {
			t := texts[i]
			dir := scratchDir()
			defer os.RemoveAll(dir)
			path := filepath.Join(dir, "t."+t.ext)
			os.WriteFile(path, []byte(t.text), 0o644)
			first := ""
			// no garbage collection during the loop: a file that is opened and never closed is otherwise
			// closed by its finalizer sooner or later, and whether the descriptors run out (workers allow
			// 2048) would depend on when the collector happens to run
			oldGC := debug.SetGCPercent(-1)
			defer debug.SetGCPercent(oldGC)
			for r := 0; r < rounds; r++ {
				c.Eval()
				obs := ""
				p := newParser()
				if err := p.MergeFileLayers(path); err != nil {
					obs = "ERR " + errClass(err)
				} else if b, err := p.Output("json"); err != nil {
					obs = "ERR output"
				} else {
					obs = string(b)
				}
				if r == 0 {
					first = obs
					continue
				}
				if obs != first {
					c.Validated()
					c.Outcome("DEPENDS-ON-PROCESS-HISTORY")
					c.Fail("format-independence", "reading-depends-on-earlier-readings-in-the-process", fmt.Sprintf("%s layer, reading %d", t.ext, r+1), map[string]any{"text": t.text, "first": first, "this": obs})
					return
				}
			}
			c.Trans(rounds)
			c.Validated()
			c.Nontrivial()
			if strings.HasPrefix(first, "ERR") {
				c.Fail("format-independence", "load-error", t.ext+": "+t.text, first)
				return
			}
			c.Outcome("stable-over-3000-readings")
		}}
}
