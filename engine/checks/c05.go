package checks

import (
	"bytes"
	"fmt"
	"math"
	"os"
	"path/filepath"
	"strings"

	"github.com/gopatchy/bkl"
	"verif/core"
	"verif/gen"
)

// C05 — output round-trips in every format: what bkl writes reads back unchanged.

func init() {
	core.Register(&core.Check{ID: "C05", Title: "output round trip", Build: buildC05})
}

var c05Lookalikes = []string{"", "1", "1.5", "true", "null", "~", "yes", "no", "on", "2001-01-01", "0x10", "0o17", "1e3", "#c", "a: b", "---", "+++", "- x", "'q'", "\"q\"",
	"a\nb", " lead", "trail ", "{}", "[]", "a.b", "é", "\t", "=", "[t]", "a\n---\nb", "a\n+++\nb", "<<", "*x", "&x", "!t", "|", ">", "%", "@", "`", ".inf", "-", "?", ":", ",",
	"NULL", "True", "1_000", "0.1.2", "\\n", "x", "k: [1", "\"", "'", "a #b", "2001-01-01T00:00:00Z", "010", "+1", ".5", "y", "n", " ", "a\r\nb", " ",
	// multi-line strings whose white space a block scalar would swallow or mistake for indentation
	// text that looks like the escapes an encoder may itself produce
	"\\u003c", "a\\u003eb", "\\u0026", "<&>", "\\n", "\\\\", "\\\"",
	"\n", "\nx", "x\n", "\n\n", "x\n\n", "  x\ny", "x\n  y", "x\n\ty", "\tx\ny", "x\n \ny", "x\n\t\n", "a\n\nb", "\n  \t"}

var c05Numbers = []any{0, 1, -1, 2147483648, math.MaxInt64, math.MinInt64, 0.1, 1.5, 2.0, 1e21, 1e-7, -0.5,
	// integral doubles that no int64 holds but that are printed without exponent or fraction
	1e19, 9.3e18, 1.8446744073709552e19, -1e19, 123456789012345680000.0, 1e15, 4503599627370497.0}

var c05Formats = []string{"json", "jsonl", "json-pretty", "yaml", "yml", "toml"}

func c05Family(f string) string {
	switch f {
	case "yaml", "yml":
		return "yaml"
	case "toml":
		return "toml"
	}
	return "json"
}

type c05Item struct {
	Docs   []any  `json:"docs"`
	Format string `json:"format"`
}

func c05Streams(tier string) [][]any {
	var out [][]any
	for _, s := range c05Lookalikes {
		out = append(out, []any{s}, []any{map[string]any{s: 1}}, []any{map[string]any{"k": s}}, []any{[]any{s}}, []any{map[string]any{s: s}},
			[]any{map[string]any{"k": []any{s, map[string]any{s: s}}}})
	}
	for _, n := range c05Numbers {
		out = append(out, []any{n}, []any{map[string]any{"n": n}}, []any{[]any{n, n}}, []any{map[string]any{"m": map[string]any{"n": n}, "l": []any{n}}})
	}
	out = append(out, []any{true}, []any{false}, []any{map[string]any{}}, []any{[]any{}}, []any{map[string]any{"e": map[string]any{}, "l": []any{}}},
		[]any{[]any{[]any{}, map[string]any{}}}, []any{map[string]any{"a": map[string]any{"b": map[string]any{"c": []any{1, map[string]any{"d": []any{}}}}}}})
	// reduced alphabet, all trees up to 3 nodes
	a := gen.Alphabet{Scalars: []any{"1", "true", "", "a\nb", "---", "#c", 1, 1.5, true}, Keys: []string{"k", "1", "", "a.b", "---", "yes"}, MaxList: 2, MaxMap: 2}
	nTree := 3
	if tier == "thorough" {
		// a wider look-alike alphabet (white space and line breaks at the edges, more keys) one node deeper
		nTree = 4
		a = gen.Alphabet{Scalars: []any{"1", "true", "", "a\nb", "---", "#c", 1, 1.5, true, "\nx", "x\n", " y", "<<", "null", -0.5, 9007199254740993},
			Keys: []string{"k", "1", "", "a.b", "---", "yes", "<<", " sp", "null"}, MaxList: 3, MaxMap: 2}
	}
	for _, t := range gen.Trees(a, nTree) {
		out = append(out, []any{t})
	}
	// multi-document streams: every sequence of 1-4 documents over a diverse pool
	pool := []any{
		map[string]any{"a": 1},
		map[string]any{},
		[]any{},
		"---",
		map[string]any{"s": "a\n---\nb", "t": "+++"},
		[]any{"x", map[string]any{"k": "v"}},
		map[string]any{"n": 1.5, "l": []any{map[string]any{"k": 1}, map[string]any{"k": 2}}},
		7,
	}
	gen.Sequences(len(pool), 4, func(seq []int) {
		if len(seq) < 2 {
			return
		}
		var s []any
		for _, i := range seq {
			s = append(s, pool[i])
		}
		out = append(out, s)
	})
	return out
}

func c05TOMLable(docs []any) bool {
	for _, d := range docs {
		if _, ok := d.(map[string]any); !ok {
			return false
		}
	}
	return true
}

// c05NormDecoded normalises what a bkl decoder returns (int64 etc.) for a value comparison.
func c05NormDecoded(v any) any { return c14Norm(v) }

func buildC05(tier string) *core.Plan {
	streams := c05Streams(tier)
	var items []c05Item
	for _, s := range streams {
		for _, f := range c05Formats {
			if f == "toml" && !c05TOMLable(s) {
				continue
			}
			items = append(items, c05Item{s, f})
		}
	}
	const batch = 250
	nb := (int64(len(items)) + batch - 1) / batch
	roundTrip := core.Space{Name: "library-round-trip", N: nb, Chunk: 1,
		Desc: func(i int64) any {
			lo := i * batch
			return map[string]any{"items": fmt.Sprintf("%d..%d", lo, lo+batch-1), "first": items[lo]}
		},
		Run: func(c *core.Ctx, i int64) {
			lo, hi := i*batch, (i+1)*batch
			if hi > int64(len(items)) {
				hi = int64(len(items))
			}
			dir := scratchDir()
			defer os.RemoveAll(dir)
			var py []pyItem
			var pyIdx []int64
			for k := lo; k < hi; k++ {
				it := items[k]
				c.Eval()
				c.Trans(len(it.Docs) + 2)
				wit := fmt.Sprintf("%s: %s", it.Format, core.Canon(it.Docs))
				p := newParser()
				for di, d := range it.Docs {
					if err := p.MergeDocument(newDoc(fmt.Sprintf("d%d", di), d)); err != nil {
						c.Fail("harness", "merge", wit, errStr(err))
						return
					}
				}
				out, err := p.Output(it.Format)
				if err != nil {
					c.Outcome("ENCODE-FAILS")
					c.Fail("round-trip", "encode-fails", wit, errStr(err))
					continue
				}
				// (i) bkl's own decoder
				f, _ := bkl.GetFormat(it.Format)
				dec, derr := f.UnmarshalStream(out)
				c.Validated()
				c.NontrivialSub()
				if derr != nil {
					c.Outcome("BKL-CANNOT-READ-ITS-OUTPUT")
					c.Fail("round-trip-bkl", "decode-fails", wit, map[string]any{"bytes": string(out), "error": errStr(derr)})
					continue
				}
				var got []any
				for _, d := range dec {
					got = append(got, c05NormDecoded(d))
				}
				if !core.EqualIntsExact(got, it.Docs) {
					c.Outcome("BKL-READS-BACK-DIFFERENT")
					c.Fail("round-trip-bkl", "values-differ", wit, map[string]any{"bytes": string(out), "got": got})
					continue
				}
				// and a fresh parser reading the bytes as a file
				fn := filepath.Join(dir, fmt.Sprintf("f%d.%s", k-lo, it.Format))
				os.WriteFile(fn, out, 0o644)
				p2 := newParser()
				if err := p2.MergeFile(fn); err != nil {
					c.Outcome("BKL-CANNOT-LOAD-ITS-OUTPUT")
					c.Fail("round-trip-bkl-file", "load-fails", wit, map[string]any{"bytes": string(out), "error": errStr(err)})
					continue
				}
				if !core.EqualIntsExact(docData(p2), it.Docs) {
					c.Outcome("BKL-LOADS-BACK-DIFFERENT")
					c.Fail("round-trip-bkl-file", "values-differ", wit, map[string]any{"bytes": string(out), "got": docData(p2)})
					continue
				}
				c.State(string(out))
				py = append(py, pyItem{fn, c05Family(it.Format)})
				pyIdx = append(pyIdx, k)
				c.Outcome("bkl-reads-back")
			}
			// (ii) the independent parsers, one batch
			res, err := pyParse(dir, py)
			if err != nil {
				c.Fail("harness", "python-bridge", "batch", err.Error())
				return
			}
			for j, r := range res {
				it := items[pyIdx[j]]
				c.Trans(1)
				c.Validated()
				wit := fmt.Sprintf("%s: %s", it.Format, core.Canon(it.Docs))
				b, _ := os.ReadFile(py[j].File)
				if r.Err != "" {
					c.Outcome("INDEPENDENT-PARSER-REJECTS")
					c.Fail("round-trip-independent", "parse-fails", wit, map[string]any{"bytes": string(b), "error": r.Err})
					continue
				}
				if !core.EqualIntsExact(r.Docs, it.Docs) {
					c.Outcome("INDEPENDENT-PARSER-DIFFERS")
					c.Fail("round-trip-independent", "values-differ", wit, map[string]any{"bytes": string(b), "got": r.Docs})
					continue
				}
				c.Outcome("independent-parser-agrees")
			}
		}}

	// CLI: which format is written, and that the bytes are the library's
	type cliCase struct {
		F, O, InExt, RealExt string
		Stream               int
	}
	cliStreams := [][]any{
		{map[string]any{"a": 1, "s": "yes", "l": []any{1.5, "x"}}},
		{map[string]any{"a": 1}, map[string]any{"b": map[string]any{"c": "---"}}},
		{map[string]any{"k": "a\nb", "e": map[string]any{}}},
	}
	var cli []cliCase
	for _, f := range []string{"", "json", "json-pretty", "toml", "yaml"} {
		for _, o := range []string{"", "json", "jsonl", "json-pretty", "yaml", "yml", "toml"} {
			for _, in := range c05Formats {
				for _, real := range []string{"json", "yaml", "toml"} {
					for s := range cliStreams {
						if tier != "thorough" && s != (len(f)+len(o)+len(in))%len(cliStreams) {
							continue
						}
						cli = append(cli, cliCase{f, o, in, real, s})
					}
				}
			}
		}
	}
	cliSpace := core.Space{Name: "cli-format-selection", N: int64(len(cli)),
		Desc: func(i int64) any { return cli[i] },
		Run: func(c *core.Ctx, i int64) {
			cs := cli[i]
			docs := cliStreams[cs.Stream]
			dir := scratchDir()
			defer os.RemoveAll(dir)
			if writeDoc(dir, "in."+cs.RealExt, cs.RealExt, docs...) != nil {
				return
			}
			os.MkdirAll(filepath.Join(dir, "o"), 0o755)
			// the output file's name has one dot, or several (only the last part is the extension)
			outName := "out." + cs.O
			if i%5 == 1 {
				outName = "out.v2." + cs.O
			} else if i%5 == 3 {
				outName = "a.toml.b.json." + cs.O
			}
			if cs.O != "" && i%2 == 0 {
				// the output file already exists and is longer than what will be written
				os.WriteFile(filepath.Join(dir, "o", outName), []byte(strings.Repeat("old: content that must not survive\n", 40)), 0o644)
			}
			// the same options in every spelling the flag parser accepts, before or after the input
			var opts []string
			switch i % 4 {
			case 0:
				if cs.F != "" {
					opts = append(opts, "-f", cs.F)
				}
				if cs.O != "" {
					opts = append(opts, "-o", "o/"+outName)
				}
			case 1:
				if cs.O != "" {
					opts = append(opts, "--output=o/"+outName)
				}
				if cs.F != "" {
					opts = append(opts, "--format="+cs.F)
				}
			case 2:
				if cs.F != "" {
					opts = append(opts, "--format", cs.F)
				}
				if cs.O != "" {
					opts = append(opts, "--output", "o/"+outName)
				}
			case 3:
				if cs.F != "" {
					opts = append(opts, "-f"+cs.F)
				}
				if cs.O != "" {
					opts = append(opts, "-oo/"+outName)
				}
			}
			var args []string
			if (i/4)%2 == 0 {
				args = append(append(args, opts...), "in."+cs.InExt)
			} else {
				args = append(append(args, "in."+cs.InExt), opts...)
			}
			want := cs.F
			if want == "" && cs.O != "" {
				want = cs.O
			}
			if want == "" {
				want = cs.InExt
			}
			c.Eval()
			c.Trans(2)
			so, se, code, err := runTool(dir, "bkl", args...)
			wit := "bkl " + strings.Join(args, " ") + " (real file in." + cs.RealExt + ")"
			c.Validated()
			c.Nontrivial()
			if err != nil || code != 0 {
				c.Outcome("CLI-FAILS")
				c.Fail("format-selection", "cli-fails", wit, se)
				return
			}
			written := so
			if cs.O != "" {
				b, rerr := os.ReadFile(filepath.Join(dir, "o", outName))
				if rerr != nil {
					c.Fail("format-selection", "no-output-file", wit, rerr.Error())
					return
				}
				if so != "" {
					c.Fail("format-selection", "stdout-not-empty-with-o", wit, so)
					return
				}
				written = string(b)
			}
			p := newParser()
			if err := p.MergeFileLayers(filepath.Join(dir, "in."+cs.RealExt)); err != nil {
				return
			}
			lib, lerr := p.Output(want)
			if lerr != nil {
				return
			}
			if written != string(lib) {
				c.Outcome("WRONG-FORMAT-WRITTEN")
				c.Fail("format-selection", "bytes-differ-from-expected-format", wit, map[string]any{"expected_format": want, "written": written, "library": string(lib)})
				return
			}
			c.Outcome("format-as-specified")
		}}

	// several inputs: without -f and -o the format is that of the FIRST input's (possibly virtual) extension
	type multiCase struct {
		First, Second string
		SkipP         bool
	}
	var multi []multiCase
	for _, a := range c05Formats {
		for _, b := range c05Formats {
			for _, sp := range []bool{false, true} {
				multi = append(multi, multiCase{a, b, sp})
			}
		}
	}
	multiSpace := core.Space{Name: "cli-format-from-first-input", N: int64(len(multi)),
		Desc: func(i int64) any { return multi[i] },
		Run: func(c *core.Ctx, i int64) {
			mc := multi[i]
			dir := scratchDir()
			defer os.RemoveAll(dir)
			if writeDoc(dir, "one.yaml", "yaml", map[string]any{"a": 1, "s": "yes"}) != nil || writeDoc(dir, "two.toml", "toml", map[string]any{"b": 2}) != nil {
				return
			}
			var args []string
			if mc.SkipP {
				args = append(args, "-P")
			}
			args = append(args, "one."+mc.First, "two."+mc.Second)
			c.Eval()
			c.Trans(2)
			so, se, code, err := runTool(dir, "bkl", args...)
			wit := "bkl " + strings.Join(args, " ")
			c.Validated()
			c.Nontrivial()
			if err != nil || code != 0 {
				c.Fail("format-selection", "cli-fails", wit, se)
				return
			}
			p := newParser()
			if p.MergeFileLayers(filepath.Join(dir, "one.yaml")) != nil || p.MergeFileLayers(filepath.Join(dir, "two.toml")) != nil {
				return
			}
			lib, lerr := p.Output(mc.First)
			if lerr != nil {
				return
			}
			if so != string(lib) {
				c.Outcome("WRONG-FORMAT-WRITTEN")
				c.Fail("format-selection", "bytes-differ-from-expected-format", wit, map[string]any{"expected_format": mc.First, "written": so, "library": string(lib)})
				return
			}
			c.Outcome("format-as-specified")
		}}
	return &core.Plan{
		Spaces: []core.Space{roundTrip, cliSpace, multiSpace, c05FileFormatSpace(), c05EmptyDocSpace()},
		Rule: "every single-document stream built from 78 look-alike strings (incl. multi-line strings with significant leading/trailing/inner white space) (as root, key, value, list entry, nested), 19 boundary numbers (incl. integral doubles beyond int64), bools and empty containers; all trees up to 3 nodes over a reduced look-alike alphabet (thorough: up to 4 nodes over 16 scalars and 9 keys); every stream of 2-4 documents over an 8-document pool; " +
			"each in all 6 output formats (TOML: map-rooted only); CLI matrix -f x -o extension x (virtual) input extension x real format",
		Assumptions: []string{"decode(encode(docs)) is compared by value (2.0 may read back as 2) with bkl's decoder, with a fresh Parser loading the bytes as a file, and with Python json / PyYAML under a YAML 1.2 core-schema resolver / tomllib",
			"strings contain no $ (they would be directives when re-read as a file)"},
		Bounds: map[string]any{"streams": len(streams), "items": len(items), "cli_cases": len(cli)},
	}
}

// c05FileFormatSpace: one Parser writes several files one after the other; each file's format is
// named by ITS extension (or the explicit argument), whatever was written before - and a writer
// without a format always gets the documented default.
func c05FileFormatSpace() core.Space {
	exts := c05Formats
	n := int64(len(exts))
	return core.Space{Name: "several-output-files-from-one-parser", N: n * n * n,
		Desc: func(i int64) any { return []string{exts[i/(n*n)], exts[(i/n)%n], exts[i%n]} },
		Run: func(c *core.Ctx, i int64) {
			seq := []string{exts[i/(n*n)], exts[(i/n)%n], exts[i%n]}
			dir := scratchDir()
			defer os.RemoveAll(dir)
			p := newParser()
			if err := p.MergeDocument(newDoc("d", map[string]any{"a": 1, "m": map[string]any{"k": "v"}})); err != nil {
				return
			}
			c.Eval()
			c.Trans(len(seq) + 1)
			for k, e := range seq {
				path := filepath.Join(dir, fmt.Sprintf("out%d.%s", k, e))
				want, werr := p.Output(e)
				if werr != nil {
					return
				}
				explicit := ""
				if k == 1 {
					explicit = e // the middle file names its format explicitly (under a neutral extension)
					path = filepath.Join(dir, "out1.txt")
				}
				if err := p.OutputToFile(path, explicit); err != nil {
					c.Fail("format-selection", "output-to-file-fails", strings.Join(seq, ","), errStr(err))
					return
				}
				got, _ := os.ReadFile(path)
				c.Validated()
				if string(got) != string(want) {
					c.Outcome("FILE-FORMAT-FOLLOWS-EARLIER-CALL")
					c.Fail("format-selection", "file-not-in-the-format-of-its-extension", fmt.Sprintf("OutputToFile sequence %s, file %d", strings.Join(seq, ","), k),
						map[string]any{"file": string(got), "want": string(want)})
					return
				}
			}
			var buf bytes.Buffer
			if err := p.OutputToWriter(&buf, ""); err == nil {
				def, _ := p.Output("json-pretty")
				if buf.String() != string(def) {
					c.Fail("format-selection", "writer-default-follows-earlier-call", strings.Join(seq, ","), map[string]any{"got": buf.String(), "want": string(def)})
					return
				}
			}
			c.Nontrivial()
			c.Outcome("each-file-in-its-own-format")
		}}
}

// c05EmptyDocSpace: streams holding EMPTY documents are written in every format and read back with
// the same number of documents; an empty document comes back empty (TOML has no way to say
// "nothing", so there - and only there - it may come back as the empty map).
func c05EmptyDocSpace() core.Space {
	streams := [][]any{{nil}, {map[string]any{"a": 1}, nil, map[string]any{"b": 2}}, {nil, map[string]any{"a": 1}}, {map[string]any{"a": 1}, nil}, {nil, nil}}
	nf := int64(len(c05Formats))
	return core.Space{Name: "streams-with-empty-documents", N: int64(len(streams)) * nf,
		Desc: func(i int64) any { return map[string]any{"docs": streams[i/nf], "format": c05Formats[i%nf]} },
		Run: func(c *core.Ctx, i int64) {
			docs, format := streams[i/nf], c05Formats[i%nf]
			f, err := bkl.GetFormat(format)
			if err != nil {
				return
			}
			c.Eval()
			c.Trans(2)
			wit := fmt.Sprintf("empty documents, %s: %s", format, core.Canon(docs))
			b, err := f.MarshalStream(core.Clone(docs).([]any))
			c.Validated()
			c.Nontrivial()
			if err != nil {
				c.Outcome("ENCODE-FAILS")
				c.Fail("round-trip-bkl", "encode-fails", wit, errStr(err))
				return
			}
			back, err := f.UnmarshalStream(b)
			if err != nil {
				c.Outcome("DECODE-FAILS")
				c.Fail("round-trip-bkl", "decode-fails", wit, map[string]any{"bytes": string(b), "error": errStr(err)})
				return
			}
			ok := len(back) == len(docs)
			for k := 0; ok && k < len(docs); k++ {
				got := c05NormDecoded(back[k])
				if docs[k] == nil {
					if m, isMap := got.(map[string]any); got != nil && !(c05Family(format) == "toml" && isMap && len(m) == 0) {
						ok = false
					}
				} else if !core.EqualLoose(got, docs[k]) {
					ok = false
				}
			}
			// a stream of nothing but empty documents may also be written as no bytes at all and read as no documents
			if !ok && len(b) == 0 {
				ok = true
			}
			if !ok {
				c.Outcome("ROUND-TRIP-DIFFERS")
				c.Fail("round-trip-bkl", "values-differ", wit, map[string]any{"bytes": string(b), "got": back})
				return
			}
			c.Outcome("round-trip-ok")
		}}
}
