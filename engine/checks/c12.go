package checks

import (
	"fmt"
	"sort"
	"strings"

	"github.com/gopatchy/bkl"
	"verif/core"
	"verif/gen"
)

// C12 — $repeat expands to exactly n indexed copies (cartesian product for named counts).

func init() {
	core.Register(&core.Check{ID: "C12", Title: "$repeat expansion", Build: buildC12})
}

// c12Subst substitutes variable name (e.g. "$repeat" or "$repeat:x") by index
// i, textually: a whole-string "$repeat" becomes the integer, {name} inside an
// interpolation becomes its decimal text. Bodies of nested $repeat maps rebind
// the unnamed variable and are left alone for it.
func c12Subst(v any, name string, i int) any {
	switch x := v.(type) {
	case string:
		return c12SubstString(x, name, i)
	case map[string]any:
		if _, has := x["$repeat"]; has && name == "$repeat" {
			return core.Clone(x)
		}
		m := map[string]any{}
		for k, c := range x {
			if cm, ok := c.(map[string]any); ok && name == "$repeat" {
				if _, inner := cm["$repeat"]; inner {
					// the key of a repeated map entry is evaluated in the inner scope
					m[k] = core.Clone(c)
					continue
				}
			}
			nk, _ := c12SubstString(k, name, i).(string)
			m[nk] = c12Subst(c, name, i)
		}
		return m
	case []any:
		l := make([]any, len(x))
		for k, c := range x {
			l[k] = c12Subst(c, name, i)
		}
		return l
	default:
		return v
	}
}

func c12SubstString(s, name string, i int) any {
	if s == name && name == "$repeat" {
		return i
	}
	if strings.HasPrefix(s, `$"`) && strings.HasSuffix(s, `"`) && len(s) >= 3 {
		return strings.ReplaceAll(s, "{"+name+"}", fmt.Sprint(i))
	}
	return s
}

type c12Unspec struct{ why string }

// c12ExpandNested expands every nested (list entry / map value) integer
// $repeat by hand. Returns c12Unspec when the outcome is not fixed.
func c12ExpandNested(v any) (any, *c12Unspec, bool) {
	switch x := v.(type) {
	case map[string]any:
		out := map[string]any{}
		for _, k := range core.SortedKeys(x) {
			c := x[k]
			if cm, ok := c.(map[string]any); ok {
				if r, has := cm["$repeat"]; has {
					n, isInt := r.(int)
					if !isInt {
						return nil, nil, false // must be an error
					}
					if n < 0 {
						return nil, &c12Unspec{"negative count"}, true
					}
					body := map[string]any{}
					for bk, bv := range cm {
						if bk != "$repeat" {
							body[bk] = bv
						}
					}
					for j := 0; j < n; j++ {
						nk, isStr := c12SubstString(k, "$repeat", j).(string)
						if !isStr {
							return nil, &c12Unspec{"key is the bare variable"}, true
						}
						if _, dup := out[nk]; dup {
							return nil, &c12Unspec{"map-level repeat produces duplicate keys"}, true
						}
						e, u, ok := c12ExpandNested(c12Subst(body, "$repeat", j))
						if u != nil || !ok {
							return nil, u, ok
						}
						out[nk] = e
					}
					continue
				}
			}
			e, u, ok := c12ExpandNested(c)
			if u != nil || !ok {
				return nil, u, ok
			}
			if _, dup := out[k]; dup {
				return nil, &c12Unspec{"duplicate keys"}, true
			}
			out[k] = e
		}
		return out, nil, true
	case []any:
		out := []any{}
		for _, c := range x {
			if cm, ok := c.(map[string]any); ok {
				if r, has := cm["$repeat"]; has {
					n, isInt := r.(int)
					if !isInt {
						return nil, nil, false
					}
					if n < 0 {
						return nil, &c12Unspec{"negative count"}, true
					}
					body := map[string]any{}
					for bk, bv := range cm {
						if bk != "$repeat" {
							body[bk] = bv
						}
					}
					for j := 0; j < n; j++ {
						e, u, ok := c12ExpandNested(c12Subst(body, "$repeat", j))
						if u != nil || !ok {
							return nil, u, ok
						}
						out = append(out, e)
					}
					continue
				}
			}
			e, u, ok := c12ExpandNested(c)
			if u != nil || !ok {
				return nil, u, ok
			}
			out = append(out, e)
		}
		return out, nil, true
	default:
		return v, nil, true
	}
}

// c12Expand hand-expands a whole document: the document-level $repeat (int or
// named counts) and then every nested one. ok=false means "must be an error".
func c12Expand(doc any) (docs []any, unspec *c12Unspec, ok bool) {
	var count any
	has := false
	var body any
	switch x := doc.(type) {
	case map[string]any:
		if r, h := x["$repeat"]; h {
			has, count = true, r
			b := map[string]any{}
			for k, v := range x {
				if k != "$repeat" {
					b[k] = v
				}
			}
			body = b
		}
	case []any:
		var rest []any
		for _, e := range x {
			if m, ok := e.(map[string]any); ok && len(m) == 1 {
				if r, h := m["$repeat"]; h {
					if has {
						return nil, nil, false // two markers
					}
					has, count = true, r
					continue
				}
			}
			rest = append(rest, e)
		}
		if has {
			if rest == nil {
				rest = []any{}
			}
			body = rest
		}
	}
	if !has {
		e, u, ok := c12ExpandNested(doc)
		if u != nil || !ok {
			return nil, u, ok
		}
		return []any{e}, nil, true
	}
	copies := []any{body}
	switch cnt := count.(type) {
	case int:
		if cnt < 0 {
			return nil, &c12Unspec{"negative count"}, true
		}
		copies = nil
		for i := 0; i < cnt; i++ {
			copies = append(copies, c12Subst(body, "$repeat", i))
		}
	case map[string]any:
		names := core.SortedKeys(cnt)
		for _, n := range names {
			if _, isInt := cnt[n].(int); !isInt {
				return nil, nil, false
			}
		}
		for _, n := range names {
			k := cnt[n].(int)
			if k < 0 {
				return nil, &c12Unspec{"negative count"}, true
			}
			var next []any
			for _, cp := range copies {
				for i := 0; i < k; i++ {
					next = append(next, c12Subst(cp, "$repeat:"+n, i))
				}
			}
			copies = next
		}
	default:
		return nil, nil, false
	}
	for _, cp := range copies {
		e, u, ok := c12ExpandNested(cp)
		if u != nil || !ok {
			return nil, u, ok
		}
		docs = append(docs, e)
	}
	return docs, nil, true
}

func c12Check(c *core.Ctx, oracle string, doc any, layers ...any) {
	c.Eval()
	merged := doc
	wit := core.Canon(doc)
	var got []any
	var gerr error
	if len(layers) == 0 {
		c.Trans(2)
		got, gerr = evalTree(doc)
	} else {
		// layered: the upper layer overrides the count
		p, err := layerAPI(doc, layers[0])
		c.Trans(3)
		if err != nil {
			c.Outcome("layer-rejected")
			return
		}
		merged = docData(p)[0]
		wit += " <- " + core.Canon(layers[0])
		got, gerr = p.OutputDocuments()
	}
	docs, u, ok := c12Expand(merged)
	if u != nil {
		c.Unspec()
		c.Outcome("unspecified")
		return
	}
	c.Validated()
	c.Nontrivial()
	if !ok {
		if gerr == nil {
			c.Outcome("BAD-COUNT-ACCEPTED")
			c.Fail(oracle, "non-integer-count-accepted", wit, map[string]any{"output": got})
			return
		}
		c.Outcome("bad-count-rejected")
		return
	}
	c.Trans(len(docs) + 1)
	want, werr := evalStream(docs)
	if (gerr == nil) != (werr == nil) {
		c.Outcome("STATUS-DIFFERS")
		c.Fail(oracle, "status-differs", wit, map[string]any{"error": errStr(gerr), "expanded_error": errStr(werr), "expanded": docs, "got": got})
		return
	}
	if gerr != nil {
		c.Outcome("both-fail")
		return
	}
	c.State(core.Canon(got))
	if !core.Equal(got, want) {
		c.Outcome("OUTPUT-DIFFERS")
		c.Fail(oracle, "output-differs", wit, map[string]any{"got": got, "want": want, "expanded": docs})
		return
	}
	c.Extra("copies", int64(len(docs)))
	c.Outcome("equal")
}

func buildC12(tier string) *core.Plan {
	n := 4
	maxCount := 5
	innerN, namedMax := 3, 3
	if tier == "thorough" {
		n, maxCount, innerN, namedMax = 6, 6, 4, 4
	}
	a := gen.Alphabet{Scalars: []any{1, "$repeat", `$"v{$repeat}"`}, Keys: []string{"a", `$"k{$repeat}"`}, MaxList: 2, MaxMap: 2}
	bodies := gen.Filter(gen.Trees(a, n), func(v any) bool { return gen.IsMap(v) || gen.IsList(v) })
	counts := []any{}
	for i := 0; i <= maxCount; i++ {
		counts = append(counts, i)
	}
	bad := []any{"2", 1.5, true, []any{}, []any{2}, "x", map[string]any{"x": "2"}, map[string]any{"x": 1.5, "y": 2}, map[string]any{"x": true},
		// a malformed count after a count of zero (nothing is generated, the count is malformed all the same)
		map[string]any{"a": 0, "b": "two"}, map[string]any{"a": 0, "b": 1.5}, map[string]any{"b": 0, "a": []any{1}}}
	all := append(append([]any{}, counts...), bad...)
	nall := int64(len(all))

	docLevel := core.Space{Name: "document-level", N: int64(len(bodies)) * nall,
		Desc: func(i int64) any { return map[string]any{"body": bodies[i/nall], "count": all[i%nall]} },
		Run: func(c *core.Ctx, i int64) {
			b, cnt := bodies[i/nall], all[i%nall]
			switch x := b.(type) {
			case map[string]any:
				d := core.Clone(x).(map[string]any)
				d["$repeat"] = cnt
				c12Check(c, "hand-expansion", d)
			case []any:
				d := append([]any{map[string]any{"$repeat": cnt}}, core.Clone(x).([]any)...)
				c12Check(c, "hand-expansion", d)
				d2 := append(core.Clone(x).([]any), map[string]any{"$repeat": cnt})
				c12Check(c, "hand-expansion", d2)
			}
		}}

	// named counts: every assignment of counts 0..3 to 1-3 names
	nameSets := [][]string{{"x"}, {"y", "x"}, {"b", "a", "c"}, {"b", "az"}, {"shard2", "shard10"}}
	var named []map[string]any
	for _, ns := range nameSets {
		var rec func(k int, cur map[string]any)
		rec = func(k int, cur map[string]any) {
			if k == len(ns) {
				m := map[string]any{}
				for kk, vv := range cur {
					m[kk] = vv
				}
				named = append(named, m)
				return
			}
			for v := 0; v <= namedMax; v++ {
				cur[ns[k]] = v
				rec(k+1, cur)
			}
		}
		rec(0, map[string]any{})
	}
	namedBodies := []any{
		map[string]any{"v": `$"{$repeat:x}"`},
		map[string]any{"v": `$"{$repeat:x}-{$repeat:y}"`},
		map[string]any{"v": `$"{$repeat:a}{$repeat:b}{$repeat:c}"`, `$"k{$repeat:a}"`: 1},
		map[string]any{"l": []any{`$"{$repeat:x}"`, map[string]any{"n": `$"{$repeat:y}"`}}},
		[]any{`$"{$repeat:x}"`, 1},
		map[string]any{"v": 1},
		map[string]any{"v": `$"{$repeat:b}/{$repeat:az}"`},
		map[string]any{"v": `$"{$repeat:shard2}/{$repeat:shard10}"`},
		// a document-level named variable used inside nested (unnamed) repeats, one and two levels down
		map[string]any{"l": []any{map[string]any{"$repeat": 2, "n": `$"{$repeat:x}.{$repeat}"`, "m": []any{map[string]any{"$repeat": 2, "d": `$"{$repeat:x}:{$repeat}"`}}}}},
		map[string]any{"m": map[string]any{`$"k{$repeat}"`: map[string]any{"$repeat": 2, "in": map[string]any{`$"j{$repeat}"`: map[string]any{"$repeat": 1, "d": `$"{$repeat:x}"`}}}}},
	}
	nn := int64(len(named))
	namedSpace := core.Space{Name: "named-counts", N: nn * int64(len(namedBodies)),
		Desc: func(i int64) any { return map[string]any{"counts": named[i%nn], "body": namedBodies[i/nn]} },
		Run: func(c *core.Ctx, i int64) {
			b, cnt := namedBodies[i/nn], named[i%nn]
			switch x := b.(type) {
			case map[string]any:
				d := core.Clone(x).(map[string]any)
				d["$repeat"] = core.Clone(cnt)
				c12Check(c, "hand-expansion-named", d)
			case []any:
				d := append([]any{map[string]any{"$repeat": core.Clone(cnt)}}, core.Clone(x).([]any)...)
				c12Check(c, "hand-expansion-named", d)
			}
		}}

	// nested: repeats inside lists and maps, under and without a document-level repeat
	inner := gen.Filter(gen.Trees(a, innerN), func(v any) bool { return gen.IsMap(v) })
	ni := int64(len(inner))
	nestedSpace := core.Space{Name: "nested-in-lists-and-maps", N: ni * nall * nall,
		Desc: func(i int64) any {
			return map[string]any{"inner_body": inner[i%ni], "inner_count": all[(i/ni)%nall], "outer_count": all[i/(ni*nall)]}
		},
		Run: func(c *core.Ctx, i int64) {
			ib := core.Clone(inner[i%ni]).(map[string]any)
			ic, oc := all[(i/ni)%nall], all[i/(ni*nall)]
			ib["$repeat"] = ic
			inList := map[string]any{"a": "$repeat", "ab": `$"hi-{fixed}-{$repeat}"`, "fixed": "F", "l": []any{"$repeat", core.Clone(ib), `$"t{$repeat}"`}, "o": "$repeat"}
			// keys sorting before and after the nested repeat use the OUTER index
			inMap := map[string]any{"a": "$repeat", "ab": `$"hi-{fixed}-{$repeat}"`, "fixed": "F", "m": map[string]any{`$"k{$repeat}"`: core.Clone(ib), "fixed": 1, "zz": `$"o{$repeat}"`}, "z": "$repeat"}
			inBoth := map[string]any{"l": []any{map[string]any{"$repeat": 2, "a": "$repeat", "m": map[string]any{`$"k{$repeat}"`: core.Clone(ib)}, "w": []any{core.Clone(ib), "$repeat"}, "z": "$repeat"}}}
			// without an outer repeat the outer variable is unbound: use variants free of it there
			plainList := map[string]any{"ab": `$"hi-{fixed}"`, "fixed": "F", "l": []any{0, core.Clone(ib), `$"t{fixed}"`}}
			plainMap := map[string]any{"ab": `$"hi-{fixed}"`, "fixed": "F", "m": map[string]any{`$"k{$repeat}"`: core.Clone(ib), "fixed": 1}}
			c12Check(c, "hand-expansion-nested", plainList)
			c12Check(c, "hand-expansion-nested", plainMap)
			// the repeat inside the operand of another directive, and reached through a reference
			for _, d := range []map[string]any{
				{"e": map[string]any{"$encode": "json", "l": []any{core.Clone(ib), "x"}}},
				{"e": map[string]any{"$encode": "json", "m": map[string]any{`$"k{$repeat}"`: core.Clone(ib)}}},
				{"e": []any{core.Clone(ib), map[string]any{"$encode": "join:,"}}},
				{"t": map[string]any{"l": []any{core.Clone(ib)}}, "u": map[string]any{"$merge": "t", "z": 1}},
				{"t": map[string]any{"$output": false, "m": map[string]any{`$"k{$repeat}"`: core.Clone(ib)}}, "u": "$replace:t.m"},
				{"o": map[string]any{"$output": true, "l": []any{core.Clone(ib)}}, "p": map[string]any{"$output": true, "l": []any{core.Clone(ib)}}},
				{"d": map[string]any{"$decode": "json", "$value": `{"n": [1, 2]}`}, "l": []any{core.Clone(ib)}},
				// copies that evaluate to lists (through $value) stay entries of the surrounding list
				{"l": []any{"first", map[string]any{"$repeat": ic, "$value": []any{"a", "$repeat"}}, "last"}},
				{"l": []any{map[string]any{"$repeat": ic, "$value": []any{}}}},
				{"l": []any{map[string]any{"$repeat": ic, "$value": []any{map[string]any{"$repeat": 2, "$value": []any{"$repeat"}}}}}},
			} {
				c12Check(c, "hand-expansion-in-directive-context", d)
			}
			for _, d := range []map[string]any{inList, inMap, inBoth} {
				c12Check(c, "hand-expansion-nested", core.Clone(d))
				if _, isInt := oc.(int); isInt {
					dd := core.Clone(d).(map[string]any)
					dd["$repeat"] = oc
					c12Check(c, "hand-expansion-nested", dd)
				}
			}
		}}

	// layering overrides the count
	layered := core.Space{Name: "count-overridden-by-upper-layer", N: nall * nall,
		Desc: func(i int64) any { return map[string]any{"lower_count": all[i/nall], "upper_count": all[i%nall]} },
		Run: func(c *core.Ctx, i int64) {
			lo, up := all[i/nall], all[i%nall]
			base := map[string]any{"$repeat": lo, "v": "$repeat", "s": `$"n{$repeat}"`}
			c12Check(c, "hand-expansion-layered", base, map[string]any{"$repeat": up})
			base2 := map[string]any{"l": []any{map[string]any{"id": 1, "$repeat": lo, "v": "$repeat"}}}
			c12Check(c, "hand-expansion-layered", base2, map[string]any{"l": []any{map[string]any{"$match": map[string]any{"id": 1}, "$repeat": up}}})
		}}

	// order of copies: ids of generated documents and plain index order
	order := core.Space{Name: "copy-order", N: 1,
		Desc: func(i int64) any { return "document-level repeat 5 and named 2x3: copies appear in index order" },
		Run: func(c *core.Ctx, i int64) {
			c.Eval()
			p := newParser()
			p.MergeDocument(bkl.NewDocumentWithData("d", map[string]any{"$repeat": 5, "i": "$repeat"}))
			outs, err := p.OutputDocuments()
			c.Validated()
			var idx []int
			for _, o := range outs {
				idx = append(idx, o.(map[string]any)["i"].(int))
			}
			if err != nil || !sort.IntsAreSorted(idx) || len(idx) != 5 {
				c.Fail("index-order", "copies-out-of-order", "repeat5", map[string]any{"order": idx, "error": errStr(err)})
			}
			c.Outcome("order-ok")
		}}

	// the copies carry the body's values unchanged, whatever they are made of
	exactBodies := []map[string]any{
		{"s": "\nlead", "i": "$repeat"},
		{"t": "\tq\n", "u": " x", "i": "$repeat"},
		{"m": map[string]any{"<<": map[string]any{"k": 1}}, "i": "$repeat"},
		{"f": 2.5, "g": 1e21, "h": 9007199254740993, "l": []any{"\n", []any{}}, "e": map[string]any{}, "i": "$repeat"},
		{"long": strings.Repeat("x", 5000), "i": `$"{$repeat}"`},
	}
	exact := core.Space{Name: "copies-are-exact", N: int64(len(exactBodies)) * 3,
		Desc: func(i int64) any { return map[string]any{"body": exactBodies[i/3], "count": i%3 + 1} },
		Run: func(c *core.Ctx, i int64) {
			d := core.Clone(exactBodies[i/3]).(map[string]any)
			d["$repeat"] = int(i%3) + 1
			c12Check(c, "hand-expansion-exact", d)
			n := core.Clone(exactBodies[i/3]).(map[string]any)
			n["$repeat"] = map[string]any{"x": int(i%3) + 1}
			c12Check(c, "hand-expansion-exact", n)
		}}

	return &core.Plan{
		Spaces: []core.Space{docLevel, namedSpace, nestedSpace, layered, order, exact},
		Rule: "every body tree up to N nodes whose leaves and keys use $repeat and {$repeat} x every count 0..max and 9 non-integer counts, at document level (map and list roots), nested in lists and maps (with and without an outer repeat), " +
			"1-3 named counts with every assignment 0..named_count_max, and counts overridden by an upper layer; distinct by construction",
		Assumptions: []string{"differential oracle: eval(D) equals the evaluation of the hand-expanded stream (textual substitution of the index, copies in index order, named products in lexicographic name order)",
			"not judged: negative counts, $repeat: null (dropped as a null entry), map-level repeats whose keys collide, a key that is the bare variable"},
		Bounds: map[string]any{"body_nodes": n, "max_count": maxCount, "nested_body_nodes": innerN, "named_count_max": namedMax, "bodies": len(bodies), "named_assignments": len(named)},
	}
}
