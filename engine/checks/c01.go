package checks

import (
	"fmt"
	"math"
	"os"
	"path/filepath"
	"strings"

	"github.com/gopatchy/bkl"
	"verif/core"
	"verif/gen"
	"verif/ref"
)

// C01 — layer merge follows the documented merge rules for every parent/child pair.

func init() {
	core.Register(&core.Check{ID: "C01", Title: "layer merge rules", Build: buildC01})
}

var c01ParentA = gen.Alphabet{Scalars: []any{1, 2, "x", nil, "$required", true, 1.5}, Keys: []string{"a", "b"}, MaxList: 3, MaxMap: 2}
var c01ChildA = gen.Alphabet{Scalars: []any{1, 2, "x", true, nil, 1.5, "$delete", "$replace", "$required"},
	Keys: []string{"a", "b", "$replace", "$delete", "$match", "$value", "$invert"}, MaxList: 3, MaxMap: 3}

// c01Step runs one layer on the real parser and on the model and compares.
// It returns false when the history must stop (error, reject or unspecified).
type c01Run struct {
	p     *bkl.Parser
	s     *ref.Stream
	docs  []*bkl.Document
	rdocs []*ref.Doc
	n     int
	hist  []c01Added // every document handed to add, for replays
}

type c01Added struct {
	data    any
	parents bool
}

func newC01Run() *c01Run {
	return &c01Run{p: newParser(), s: &ref.Stream{}}
}

func (r *c01Run) add(data any, parentsOfAll bool) (error, ref.Result) {
	id := fmt.Sprintf("L%d", r.n)
	r.n++
	r.hist = append(r.hist, c01Added{core.Clone(data), parentsOfAll})
	d := bkl.NewDocumentWithData(id, core.Clone(data))
	rd := &ref.Doc{ID: id, Data: core.Clone(data)}
	if parentsOfAll {
		d.AddParents(r.docs...)
		rd.Parents = append(rd.Parents, r.rdocs...)
	}
	r.docs = append(r.docs, d)
	r.rdocs = append(r.rdocs, rd)
	err := r.p.MergeDocument(d)
	res, _ := r.s.MergeDocument(rd)
	return err, res
}

// maskable: the model rejects the last child, the implementation accepted it at merge time and
// refuses only when asked for output. "Rejected with an error, never silently accepted" then still
// has to hold when more layers follow: if one further layer that merely deletes a top-level key of
// that child makes the whole chain evaluate, the useless or inapplicable override was silently
// accepted after all.
func (r *c01Run) maskable(c *core.Ctx, wit, why string) {
	last, ok := r.hist[len(r.hist)-1].data.(map[string]any)
	if !ok {
		return
	}
	for _, k := range core.SortedKeys(last) {
		if strings.HasPrefix(k, "$") {
			continue
		}
		p := newParser()
		var docs []*bkl.Document
		okAll := true
		for i, h := range append(append([]c01Added{}, r.hist...), c01Added{map[string]any{k: "$delete"}, true}) {
			d := bkl.NewDocumentWithData(fmt.Sprintf("M%d", i), core.Clone(h.data))
			if h.parents {
				d.AddParents(docs...)
			}
			docs = append(docs, d)
			c.Trans(1)
			if err := p.MergeDocument(d); err != nil {
				okAll = false
				break
			}
		}
		if !okAll {
			continue
		}
		if outs, err := p.OutputDocuments(); err == nil {
			c.Outcome("REJECTION-MASKED-BY-LATER-LAYER")
			c.Fail("never-silently-accepted", "rejection-only-at-output-is-masked-by-a-later-layer", "maskable: "+c01WhyClass(why),
				map[string]any{"chain": wit, "then": map[string]any{k: "$delete"}, "model": "reject: " + why, "output": outs})
			return
		}
	}
}

// c01WhyClass strips the specifics from a model reason, so that findings of one kind share a witness.
func c01WhyClass(why string) string {
	for _, cut := range []string{":", "="} {
		if i := strings.Index(why, cut); i > 0 {
			why = why[:i]
		}
	}
	return strings.TrimSpace(why)
}

// compare checks the implementation against the model after a layer.
// returns true if the history may continue.
func (r *c01Run) compare(c *core.Ctx, oracle, wit string, err error, res ref.Result) bool {
	c.Eval()
	c.Trans(1)
	switch res.V {
	case ref.Unspec:
		c.Unspec()
		c.Outcome("unspecified")
		if err == nil {
			c.Trans(1)
			r.p.OutputDocuments() // executed, not judged
		}
		return false
	case ref.Reject:
		c.Validated()
		c.Nontrivial()
		if err != nil {
			c.Outcome("rejected-at-merge")
			return false
		}
		c.Trans(1)
		_, oerr := r.p.OutputDocuments()
		if oerr != nil {
			c.Outcome("rejected-at-output")
			r.maskable(c, wit, res.Why)
			return false
		}
		c.Outcome("WRONGLY-ACCEPTED")
		c.Fail(oracle, "silently-accepted", wit, map[string]any{"model": "reject: " + res.Why, "documents": docData(r.p)})
		return false
	}
	c.Validated()
	if err != nil {
		c.Outcome("WRONGLY-REJECTED")
		c.Fail(oracle, "wrongly-rejected", wit, map[string]any{"model": "accept", "error": errStr(err)})
		return false
	}
	got := docData(r.p)
	want := make([]any, len(r.s.Docs))
	for i, d := range r.s.Docs {
		want[i] = d.Data
	}
	key := core.Canon(got)
	c.State(key)
	if key != core.Canon(want) {
		c.Outcome("WRONG-MERGE")
		c.Fail(oracle, "wrong-merge", wit, map[string]any{"got": got, "want": want})
		return false
	}
	// output = Final of every merged document
	var wantOut []any
	verdict := ref.Accept
	why := ""
	for _, d := range want {
		f := ref.Final(d)
		if f.V == ref.Unspec {
			verdict = ref.Unspec
			break
		}
		if f.V == ref.Reject {
			verdict = ref.Reject
			why = f.Why
			break
		}
		if f.Val != nil {
			wantOut = append(wantOut, f.Val)
		}
	}
	c.Trans(1)
	outs, oerr := r.p.OutputDocuments()
	// Output must not disturb the merged state (a later layer continues from it)
	if core.Canon(docData(r.p)) != key {
		// C19's business; here it would corrupt the chain, so stop comparing.
		c.Outcome("state-changed-by-output")
		return false
	}
	switch verdict {
	case ref.Unspec:
		c.Outcome("merged;output-unspecified")
	case ref.Reject:
		c.Nontrivial()
		if oerr == nil {
			c.Outcome("STRAY-OUTPUT")
			c.Fail(oracle, "stray-marker-in-output", wit, map[string]any{"model": "output rejected: " + why, "got": outs})
			return false
		}
		c.Outcome("merged;output-rejected")
	default:
		if oerr != nil {
			c.Outcome("OUTPUT-ERROR")
			c.Fail(oracle, "output-error", wit, map[string]any{"error": errStr(oerr), "want": wantOut})
			return false
		}
		if wantOut == nil {
			wantOut = []any{}
		}
		if !core.Equal(outs, wantOut) {
			c.Outcome("WRONG-OUTPUT")
			c.Fail(oracle, "wrong-output", wit, map[string]any{"got": outs, "want": wantOut})
			return false
		}
		c.Nontrivial()
		c.Outcome("merged;output-ok")
	}
	return true
}

func c01Pair(c *core.Ctx, oracle string, parent, child any) {
	r := newC01Run()
	err, res := r.add(parent, false)
	if err != nil || res.V != ref.Accept {
		return
	}
	err, res = r.add(child, true)
	r.compare(c, oracle, core.Canon(parent)+" <- "+core.Canon(child), err, res)
}

// c01ListEntries / c01ListEdits: the list-focused alphabet (space C).
func c01ListParents() []any {
	entries := []any{1, "x", map[string]any{"a": 1}, map[string]any{"a": 1, "b": 2}, map[string]any{"a": 2}, map[string]any{"b": 2}, []any{1}, "$required"}
	var out []any
	out = append(out, []any{})
	for _, a := range entries {
		out = append(out, []any{a})
	}
	for _, a := range entries {
		for _, b := range entries {
			out = append(out, []any{a, b})
		}
	}
	for _, a := range entries {
		for _, b := range entries {
			for _, d := range entries {
				out = append(out, []any{a, b, d})
			}
		}
	}
	return out
}

func c01ListEdits() []any {
	pats := []any{1, "x", map[string]any{"a": 1}, map[string]any{}, map[string]any{"a": 1, "$invert": true}, map[string]any{"zz": 1},
		[]any{1}, map[string]any{"b": 2}, map[string]any{"a": 1, "b": 2}}
	out := []any{1, "x", "$replace", "$required", map[string]any{"a": 1}, map[string]any{"$replace": true}, map[string]any{"$replace": true, "a": 1},
		map[string]any{"$replace": false}, []any{2}}
	for _, p := range pats {
		out = append(out,
			map[string]any{"$delete": p},
			map[string]any{"$delete": p, "a": 1},
			map[string]any{"$match": p, "b": 9},
			map[string]any{"$match": p, "a": 1},
			map[string]any{"$match": p, "$value": 7},
			map[string]any{"$match": p, "$value": 7, "b": 1},
			map[string]any{"$match": p, "$value": map[string]any{"b": 9}},
			map[string]any{"$match": p, "a": "$delete"},
			map[string]any{"$match": p, "$replace": true, "c": 3},
			map[string]any{"$match": p},
		)
	}
	return out
}

func buildC01(tier string) *core.Plan {
	nParent, nChild, chainParents, chainDepth := 4, 3, 3, 2
	if tier == "thorough" {
		nParent, nChild, chainParents, chainDepth = 4, 4, 2, 3
	}
	parents := gen.Trees(c01ParentA, nParent)
	children := gen.Trees(c01ChildA, nChild)
	np, nc := int64(len(parents)), int64(len(children))

	if tier != "thorough" {
		// quick: all parents up to 3 nodes x all children up to 3 nodes here; the 4-node parents meet the children up to 2 nodes below
		parents = gen.Trees(c01ParentA, 3)
		np = int64(len(parents))
	}
	product := core.Space{Name: fmt.Sprintf("product-parents%d-children%d", map[bool]int{true: nParent, false: 3}[tier == "thorough"], nChild), N: np * nc,
		Desc: func(i int64) any { return map[string]any{"parent": parents[i/nc], "child": children[i%nc]} },
		Run: func(c *core.Ctx, i int64) {
			c01Pair(c, "refMerge", parents[i/nc], children[i%nc])
		}}

	bigParents := gen.TreesExact(c01ParentA, 4)
	smallChildren := gen.Trees(c01ChildA, 2)
	nsc := int64(len(smallChildren))
	product4 := core.Space{Name: "product-parents=4-children2", N: int64(len(bigParents)) * nsc,
		Desc: func(i int64) any { return map[string]any{"parent": bigParents[i/nsc], "child": smallChildren[i%nsc]} },
		Run: func(c *core.Ctx, i int64) {
			c01Pair(c, "refMerge", bigParents[i/nsc], smallChildren[i%nsc])
		}}
	lp, le := c01ListParents(), c01ListEdits()
	// children of the list space: 1 or 2 edit entries
	nle := int64(len(le))
	listN := int64(len(lp)) * (nle + nle*nle)
	listCase := func(i int64) (any, any) {
		per := nle + nle*nle
		p := lp[i/per]
		j := i % per
		var ch []any
		if j < nle {
			ch = []any{le[j]}
		} else {
			j -= nle
			ch = []any{le[j/nle], le[j%nle]}
		}
		return p, ch
	}
	listSpace := core.Space{Name: "list-edits", N: listN,
		Desc: func(i int64) any { p, ch := listCase(i); return map[string]any{"parent": p, "child": ch} },
		Run: func(c *core.Ctx, i int64) {
			p, ch := listCase(i)
			if i%2 == 0 {
				c01Pair(c, "refMerge-list", p, ch)
			} else { // the same list under a key, so mergeMapMap -> mergeList is the path
				c01Pair(c, "refMerge-list", map[string]any{"l": p, "k": 1}, map[string]any{"l": ch})
			}
		}}
	if tier == "thorough" {
		listSpace.Run = func(c *core.Ctx, i int64) {
			p, ch := listCase(i)
			c01Pair(c, "refMerge-list", p, ch)
			c01Pair(c, "refMerge-list", map[string]any{"l": p, "k": 1}, map[string]any{"l": ch})
		}
	}

	// patterns that are themselves lists of maps (subset / superset / equal entries), against entries holding lists of maps
	shapeEntries := []any{[]any{map[string]any{"a": 1, "b": 2}}, map[string]any{"p": []any{map[string]any{"a": 1, "b": 2}}}, map[string]any{"p": []any{map[string]any{"a": 1}}},
		map[string]any{"p": []any{map[string]any{"a": 1}, map[string]any{"b": 2}}}, map[string]any{"a": 1, "b": 2}, []any{1, 2}, 1}
	var shapeParents []any
	for _, x := range shapeEntries {
		shapeParents = append(shapeParents, []any{x})
		for _, y := range shapeEntries {
			shapeParents = append(shapeParents, []any{x, y})
		}
	}
	shapePats := []any{
		[]any{map[string]any{"a": 1}}, []any{map[string]any{"a": 1, "b": 2}}, []any{map[string]any{"a": 1, "b": 2, "c": 3}}, []any{map[string]any{"b": 2}, map[string]any{"a": 1}},
		map[string]any{"p": []any{map[string]any{"a": 1}}}, map[string]any{"p": []any{map[string]any{"a": 1, "b": 2}}}, map[string]any{"p": []any{map[string]any{"a": 1, "b": 2, "c": 3}}},
		map[string]any{"p": []any{map[string]any{"b": 2}}}, map[string]any{"p": []any{}}, []any{}, []any{1}, []any{2, 1}, []any{1, 1, 3},
		map[string]any{"p": []any{map[string]any{"a": 1}}, "$invert": true}, map[string]any{"a": 1}, map[string]any{"a": 1, "b": 2, "c": 3},
	}
	var shapeEdits []any
	for _, pt := range shapePats {
		shapeEdits = append(shapeEdits, map[string]any{"$delete": pt}, map[string]any{"$match": pt, "z": 9}, map[string]any{"$match": pt, "$value": 7})
	}
	nse := int64(len(shapeEdits))
	shapeSpace := core.Space{Name: "list-of-map-patterns", N: int64(len(shapeParents)) * nse,
		Desc: func(i int64) any {
			return map[string]any{"parent": shapeParents[i/nse], "child": []any{shapeEdits[i%nse]}}
		},
		Run: func(c *core.Ctx, i int64) {
			c01Pair(c, "refMerge-list", shapeParents[i/nse], []any{shapeEdits[i%nse]})
			c01Pair(c, "refMerge-list", map[string]any{"l": shapeParents[i/nse]}, map[string]any{"l": []any{shapeEdits[i%nse]}})
		}}

	// fan-out then single edit: one layer's list $match hits two entries and brings in containers,
	// the next layer edits what arrived in ONE of them (entries must not share what they received)
	foParents := []any{
		map[string]any{"l": []any{map[string]any{"k": 1, "id": 1, "sub": []any{0}}, map[string]any{"k": 1, "id": 2, "sub": []any{0}}}},
		[]any{map[string]any{"k": 1, "id": 1, "sub": []any{0}, "m": map[string]any{"o": 1}}, map[string]any{"k": 1, "id": 2, "sub": []any{0}, "m": map[string]any{"o": 1}}, map[string]any{"k": 2, "id": 3}},
	}
	foBodies := []map[string]any{
		{"sub": []any{map[string]any{"x": 1}}},
		{"new": map[string]any{"x": 1}},
		{"new": []any{map[string]any{"x": 1}, []any{map[string]any{"x": 1}}}},
		{"m": map[string]any{"deep": map[string]any{"x": 1}, "dl": []any{map[string]any{"x": 1}}}},
		{"sub": []any{[]any{map[string]any{"x": 1}}}},
		{"m": map[string]any{"$replace": true, "x": map[string]any{"y": 1}}},
	}
	foEdits := []map[string]any{
		{"sub": []any{map[string]any{"$match": map[string]any{"x": 1}, "y": 2}}},
		{"new": map[string]any{"y": 2}},
		{"new": []any{map[string]any{"$match": map[string]any{"x": 1}, "y": 2}}},
		{"m": map[string]any{"deep": map[string]any{"y": 2}}},
		{"m": map[string]any{"dl": []any{map[string]any{"$match": map[string]any{"x": 1}, "y": 2}}}},
		{"sub": []any{map[string]any{"$delete": map[string]any{"x": 1}}}},
		{"m": map[string]any{"x": map[string]any{"z": 3}}},
		{"new": "$delete"},
	}
	nfb, nfe := int64(len(foBodies)), int64(len(foEdits))
	fanout := core.Space{Name: "fanout-then-single-edit", N: int64(len(foParents)) * nfb * nfe,
		Desc: func(i int64) any {
			return map[string]any{"parent": foParents[i/(nfb*nfe)], "fanout_body": foBodies[(i/nfe)%nfb], "single_edit": foEdits[i%nfe]}
		},
		Run: func(c *core.Ctx, i int64) {
			parent := foParents[i/(nfb*nfe)]
			body, edit := foBodies[(i/nfe)%nfb], foEdits[i%nfe]
			wrap := func(sel map[string]any, b map[string]any) any {
				e := core.Clone(b).(map[string]any)
				e["$match"] = sel
				if _, isList := parent.([]any); isList {
					return []any{e}
				}
				return map[string]any{"l": []any{e}}
			}
			l1 := wrap(map[string]any{"k": 1}, body)
			for _, id := range []int{1, 2} {
				l2 := wrap(map[string]any{"id": id}, edit)
				r := newC01Run()
				err, res := r.add(parent, false)
				if err != nil || res.V != ref.Accept {
					return
				}
				wit := core.Canon(parent) + " <- " + core.Canon(l1)
				err, res = r.add(l1, true)
				if !r.compare(c, "refMerge-fanout", wit, err, res) {
					continue
				}
				wit += " <- " + core.Canon(l2)
				err, res = r.add(l2, true)
				r.compare(c, "refMerge-fanout", wit, err, res)
			}
		}}

	// chains: parent + up to chainDepth further layers, each listing all earlier layers as parents
	chainP := gen.Trees(c01ParentA, chainParents)
	chainC := gen.Trees(c01ChildA, 2)
	ncc := len(chainC)
	seqN := gen.CountSequences(ncc, chainDepth)
	chain := core.Space{Name: fmt.Sprintf("chains-depth%d", chainDepth), N: int64(len(chainP)) * seqN,
		Desc: func(i int64) any {
			seq := gen.SequenceAt(ncc, chainDepth, i%seqN)
			ls := []any{}
			for _, s := range seq {
				ls = append(ls, chainC[s])
			}
			return map[string]any{"parent": chainP[i/seqN], "layers": ls}
		},
		Run: func(c *core.Ctx, i int64) {
			seq := gen.SequenceAt(ncc, chainDepth, i%seqN)
			if len(seq) < 2 {
				return // single layers are the product space
			}
			parent := chainP[i/seqN]
			r := newC01Run()
			err, res := r.add(parent, false)
			if err != nil || res.V != ref.Accept {
				return
			}
			wit := core.Canon(parent)
			for _, s := range seq {
				wit += " <- " + core.Canon(chainC[s])
				err, res = r.add(chainC[s], true)
				if !r.compare(c, "refMerge-chain", wit, err, res) {
					return
				}
			}
		}}

	// the same pairs through files: a.json (parent) and a.b.json (child)
	fp := gen.Trees(c01ParentA, 3)
	fc := gen.Trees(c01ChildA, 2)
	nfc := int64(len(fc))
	files := core.Space{Name: "json-files", N: int64(len(fp)) * nfc,
		Desc: func(i int64) any { return map[string]any{"a.json": fp[i/nfc], "a.b.json": fc[i%nfc]} },
		Run: func(c *core.Ctx, i int64) {
			parent, child := fp[i/nfc], fc[i%nfc]
			dir := scratchDir()
			defer os.RemoveAll(dir)
			js, _ := bkl.GetFormat("json")
			pb, _ := js.MarshalStream([]any{parent})
			cb, _ := js.MarshalStream([]any{child})
			os.WriteFile(filepath.Join(dir, "a.json"), pb, 0o644)
			os.WriteFile(filepath.Join(dir, "a.b.json"), cb, 0o644)
			r := newC01Run()
			rp := &ref.Doc{ID: "p", Data: core.Clone(parent)}
			res, _ := r.s.MergeDocument(rp)
			if res.V != ref.Accept {
				return
			}
			rc := &ref.Doc{ID: "c", Data: core.Clone(child), Parents: []*ref.Doc{rp}}
			res, _ = r.s.MergeDocument(rc)
			err := r.p.MergeFileLayers(filepath.Join(dir, "a.b.json"))
			r.compare(c, "refMerge-files", core.Canon(parent)+" <- "+core.Canon(child), err, res)
		}}

	// scalars of different kinds that print alike ("1" and 1, "true" and true, "[1]" and [1]): an
	// override is useless exactly when the value is the same value, not when it looks the same
	kinds := []any{1, "1", 0, "0", true, "true", false, "false", 1.5, "1.5", "x", "", "<nil>", "[1]", []any{1}, "map[]", map[string]any{}, "map[a:1]", map[string]any{"a": 1},
		// neighbours that a comparison through float64, a hash prefix or a length would confuse
		-1, 9007199254740992, 9007199254740993, math.MaxInt64, math.MaxInt64 - 1, math.MinInt64, 0.3, 0.30000000000000004, 1e21, "é", "e\u0301", "ab", "ba", strings.Repeat("x", 64) + "a", strings.Repeat("x", 64) + "b"}
	nk := int64(len(kinds))
	kindSpace := core.Space{Name: "scalar-kinds-that-print-alike", N: nk * nk,
		Desc: func(i int64) any { return map[string]any{"parent_value": kinds[i/nk], "child_value": kinds[i%nk]} },
		Run: func(c *core.Ctx, i int64) {
			pv, cv := kinds[i/nk], kinds[i%nk]
			c01Pair(c, "refMerge-kinds", map[string]any{"a": core.Clone(pv), "k": 1}, map[string]any{"a": core.Clone(cv)})
			c01Pair(c, "refMerge-kinds", map[string]any{"a": map[string]any{"b": core.Clone(pv), "k": 1}}, map[string]any{"a": map[string]any{"b": core.Clone(cv)}})
			if !gen.IsMap(pv) && !gen.IsList(pv) {
				c01Pair(c, "refMerge-kinds", map[string]any{"l": []any{core.Clone(pv), "other"}}, map[string]any{"l": []any{map[string]any{"$match": core.Clone(pv), "$value": core.Clone(cv)}}})
			}
		}}

	// what a child ADDS (a new key, an appended list entry) arrives unchanged, whatever it is made of
	awkward := []any{"\nx", "\tq\n", " lead", "x\n", "\n", map[string]any{"<<": map[string]any{"k": 1}}, map[string]any{"s": "\n  x\n y", "t": []any{"\nitem"}},
		1.0, 2.5, 1e21, math.MaxInt64, "", "<<", "null", "~", "1", []any{}, map[string]any{}, []any{[]any{"\n"}}, strings.Repeat("long ", 3000), "---", "a: b", "- x"}
	// deep and wide containers (recursion depth, map sizes past small-map optimisations, long lists)
	deep := func(leaf any) any {
		var v any = leaf
		for i := 0; i < 12; i++ {
			if i%3 == 2 {
				v = []any{v}
			} else {
				v = map[string]any{fmt.Sprintf("d%d", i): v, "side": i}
			}
		}
		return v
	}
	wide := map[string]any{}
	longList := []any{}
	for i := 0; i < 120; i++ {
		wide[fmt.Sprintf("k%03d", i)] = i
		longList = append(longList, map[string]any{"id": i, "v": "x"})
	}
	awkward = append(awkward, deep(1), wide, longList)
	bigSpace := core.Space{Name: "deep-and-wide-containers", N: 6,
		Desc: func(i int64) any {
			return []string{"deep leaf override", "deep added sibling", "wide override of one key", "wide delete of one key", "long list $match edit of one entry", "long list $delete of one entry"}[i]
		},
		Run: func(c *core.Ctx, i int64) {
			switch i {
			case 0:
				c01Pair(c, "refMerge-big", map[string]any{"r": deep(1)}, map[string]any{"r": deep(2)})
			case 1:
				c01Pair(c, "refMerge-big", map[string]any{"r": deep(1)}, map[string]any{"r": map[string]any{"d11": map[string]any{"added": true}}})
			case 2:
				c01Pair(c, "refMerge-big", map[string]any{"w": core.Clone(wide)}, map[string]any{"w": map[string]any{"k057": "new", "k119": 0, "k120": "added"}})
			case 3:
				c01Pair(c, "refMerge-big", map[string]any{"w": core.Clone(wide)}, map[string]any{"w": map[string]any{"k000": "$delete", "k064": "$delete"}})
			case 4:
				c01Pair(c, "refMerge-big", map[string]any{"l": core.Clone(longList)}, map[string]any{"l": []any{map[string]any{"$match": map[string]any{"id": 119}, "v": "edited"}, map[string]any{"$match": map[string]any{"id": 0}, "w": 1}}})
			case 5:
				c01Pair(c, "refMerge-big", map[string]any{"l": core.Clone(longList)}, map[string]any{"l": []any{map[string]any{"$delete": map[string]any{"id": 64}}, map[string]any{"id": 500}}})
			}
		}}
	addSpace := core.Space{Name: "child-adds-awkward-values", N: int64(len(awkward)),
		Desc: func(i int64) any { return clipAny(awkward[i]) },
		Run: func(c *core.Ctx, i int64) {
			v := awkward[i]
			c01Pair(c, "refMerge-added", map[string]any{"a": 1}, map[string]any{"n": core.Clone(v)})
			c01Pair(c, "refMerge-added", map[string]any{"a": map[string]any{"b": 1}}, map[string]any{"a": map[string]any{"n": map[string]any{"deep": core.Clone(v)}}})
			c01Pair(c, "refMerge-added", map[string]any{"l": []any{1}}, map[string]any{"l": []any{core.Clone(v)}})
			c01Pair(c, "refMerge-added", map[string]any{"l": []any{map[string]any{"k": 1}}}, map[string]any{"l": []any{map[string]any{"$match": map[string]any{"k": 1}, "n": core.Clone(v)}}})
			c01Pair(c, "refMerge-added", map[string]any{"a": 1}, map[string]any{"a": core.Clone(v)})
		}}

	// a useless directive that arrives below a key the parent lacks, then is overridden by a third layer:
	// somewhere along the chain there has to be an error ("never silently accepted")
	type lateCase struct {
		name          string
		parent, child any
		third         any
	}
	lates := []lateCase{
		{"$delete below a new key", map[string]any{"a": 1}, map[string]any{"b": map[string]any{"c": "$delete"}}, map[string]any{"b": map[string]any{"c": 5}}},
		{"list $match below a new key", map[string]any{"a": 1}, map[string]any{"b": []any{map[string]any{"$match": map[string]any{"x": 1}, "y": 2}}}, map[string]any{"b": []any{"$replace", 1}}},
		{"list $delete below a new key", map[string]any{"a": 1}, map[string]any{"b": []any{map[string]any{"$delete": 1}}}, map[string]any{"b": []any{"$replace", 1}}},
		{"$delete two levels below a new key", map[string]any{"a": 1}, map[string]any{"n": map[string]any{"m": map[string]any{"c": "$delete", "k": 1}}}, map[string]any{"n": map[string]any{"m": map[string]any{"c": 5}}}},
		// controls: the same directives against a parent that has the key are refused at once
		{"control: $delete of a missing key in an existing map", map[string]any{"b": map[string]any{"k": 1}}, map[string]any{"b": map[string]any{"c": "$delete"}}, map[string]any{"b": map[string]any{"c": 5}}},
	}
	lateSpace := core.Space{Name: "useless-directive-below-a-new-key-then-overridden", N: int64(len(lates)), Chunk: 1,
		Desc: func(i int64) any { return lates[i] },
		Run: func(c *core.Ctx, i int64) {
			lc := lates[i]
			c.Eval()
			c.Trans(4)
			p := newParser()
			var docs []*bkl.Document
			failedAt := ""
			for k, data := range []any{lc.parent, lc.child, lc.third} {
				d := bkl.NewDocumentWithData(fmt.Sprintf("L%d", k), core.Clone(data))
				d.AddParents(docs...)
				docs = append(docs, d)
				if err := p.MergeDocument(d); err != nil {
					failedAt = fmt.Sprintf("layer %d", k)
					break
				}
			}
			var outs []any
			if failedAt == "" {
				var err error
				if outs, err = p.OutputDocuments(); err != nil {
					failedAt = "output"
				}
			}
			c.Validated()
			c.Nontrivial()
			if failedAt == "" {
				c.Outcome("USELESS-DIRECTIVE-SILENTLY-ACCEPTED")
				c.Fail("never-silently-accepted", "useless-directive-masked-by-a-later-layer", "late: "+lc.name,
					map[string]any{"parent": lc.parent, "child": lc.child, "third": lc.third, "output": outs})
				return
			}
			c.Outcome("refused at " + failedAt)
		}}

	return &core.Plan{
		Spaces: func() []core.Space {
			sp := []core.Space{product, listSpace, shapeSpace, fanout, chain, files, kindSpace, addSpace, bigSpace, lateSpace}
			if tier != "thorough" {
				sp = append(sp, product4)
			}
			return sp
		}(),
		Rule: "all (parent, child) pairs of trees up to the node bounds over the directive alphabet; all list parents of <=3 entries x all child lists of <=2 directive entries; " +
			"all chains of up to depth further layers; every case is distinct by construction. non-trivial = the model rejects, or the model accepts and the merged output was compared",
		Assumptions: []string{"reference semantics ref.Merge/ref.Match/ref.Stream/ref.Final (DESIGN Appendix A) is the oracle",
			"Unspecified zones (child null over a value, numerically equal numbers of different type, a pattern containing null, a list directive matching an entry appended by the same child) are executed but not judged",
			"a model Reject is satisfied by an error at merge time or at output time"},
		Bounds: map[string]any{"parent_nodes": nParent, "child_nodes": nChild, "chain_parent_nodes": chainParents, "chain_depth": chainDepth,
			"parents": np, "children": nc, "list_parents": len(lp), "list_edit_entries": len(le)},
	}
}
