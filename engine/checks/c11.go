package checks

import (
	"sort"
	"strings"

	"verif/core"
	"verif/gen"
	"verif/ref"
)

// C11 — $output selects exactly the marked subtrees and hides exactly the excluded ones.

func init() {
	core.Register(&core.Check{ID: "C11", Title: "$output selection and hiding", Build: buildC11})
}

func c11Check(c *core.Ctx, oracle string, docs []any) {
	c.Eval()
	c.Trans(len(docs) + 1)
	outs, err := evalStream(docs)
	wit := core.Canon(docs)
	var want []any
	var perDoc []int
	nested := false
	for _, d := range docs {
		r := ref.Outputs(ref.DropNulls(d))
		switch r.V {
		case ref.Unspec:
			c.Unspec()
			c.Outcome("unspecified")
			// what the statement fixes even here: the root is the output only when NOTHING is marked. A
			// document with a marked subtree (however that subtree itself fares) never falls back to its root.
			if len(docs) == 1 && err == nil && c11CountTrue(d) > 0 && !c11RootMarked(d) {
				if fb := ref.Outputs(ref.DropNulls(c11StripTrue(d))); fb.V == ref.Accept && len(fb.Outs) == 1 {
					for _, o := range outs {
						if core.Equal(o, fb.Outs[0]) {
							c.Outcome("ROOT-FALLBACK-ALTHOUGH-MARKED")
							c.Fail(oracle, "root-emitted-although-a-subtree-is-marked", wit, map[string]any{"got": outs, "root_fallback": fb.Outs[0]})
							return
						}
					}
					c.Outcome("unspecified-but-no-root-fallback")
				}
			}
			return
		case ref.Reject:
			c.Validated()
			if err == nil {
				c.Outcome("WRONGLY-ACCEPTED")
				c.Fail(oracle, "accepted", wit, map[string]any{"model": r.Why, "got": outs})
			} else {
				c.Outcome("rejected")
			}
			return
		}
		nested = nested || r.NestedSel
		want = append(want, r.Outs...)
		perDoc = append(perDoc, len(r.Outs))
	}
	c.Validated()
	if err != nil {
		c.Outcome("WRONGLY-REJECTED")
		c.Fail(oracle, "rejected", wit, map[string]any{"error": errStr(err), "want": want})
		return
	}
	if anyString(docs, func(s string) bool { return s == "$output" }) {
		c.Nontrivial()
	}
	c.State(core.Canon(outs))
	// invariant: no marker survives
	if anyString(outs, func(s string) bool { return s == "$output" }) {
		c.Outcome("MARKER-SURVIVES")
		c.Fail(oracle, "marker-in-output", wit, map[string]any{"got": outs})
		return
	}
	if want == nil {
		want = []any{}
	}
	// The statement promises "a fixed order" without saying which: the outputs of one document
	// are compared as a multiset (that the order is the same on every run is C09's business);
	// the documents of a stream keep their order, so the flat list is cut at the model's counts.
	_ = nested
	if len(outs) != len(want) {
		c.Outcome("WRONG-OUTPUTS")
		c.Fail(oracle, "wrong-output-count", wit, map[string]any{"got": outs, "want": want})
		return
	}
	off := 0
	for _, n := range perDoc {
		if multiset(outs[off:off+n]) != multiset(want[off:off+n]) {
			c.Outcome("WRONG-OUTPUTS")
			c.Fail(oracle, "wrong-outputs", wit, map[string]any{"got": outs, "want": want})
			return
		}
		off += n
	}
	if core.Equal(outs, want) {
		c.Outcome("ok")
	} else {
		c.Outcome("ok-other-order")
	}
}

func multiset(l []any) string {
	var s []string
	for _, v := range l {
		s = append(s, core.Canon(v))
	}
	sort.Strings(s)
	return strings.Join(s, "\n")
}

func buildC11(tier string) *core.Plan {
	n, ns2 := 6, 3
	if tier == "thorough" {
		n, ns2 = 7, 4
	}
	a := gen.Alphabet{Scalars: []any{1, true, false}, Keys: []string{"a", "b", "$output"}, MaxList: 3, MaxMap: 3}
	trees := gen.NewSet(a, n)
	single := core.Space{Name: "single-documents", N: trees.Len(),
		Desc: func(i int64) any { return trees.At(i) },
		Run:  func(c *core.Ctx, i int64) { c11Check(c, "refSelect/refHide", []any{trees.At(i)}) }}
	small := gen.Trees(a, ns2)
	ns := int64(len(small))
	streams := core.Space{Name: "two-document-streams", N: ns * ns,
		Desc: func(i int64) any { return []any{small[i/ns], small[i%ns]} },
		Run:  func(c *core.Ctx, i int64) { c11Check(c, "refSelect/refHide-stream", []any{small[i/ns], small[i%ns]}) }}
	lay := small
	nl := int64(len(lay))
	// markers contributed, overridden or removed by an upper layer: the outputs of the layered
	// evaluation are the outputs of the merged tree given directly, and what the model selects from it
	layered := core.Space{Name: "marker-set-by-upper-layer", N: nl * nl,
		Desc: func(i int64) any { return map[string]any{"lower": lay[i/nl], "upper": lay[i%nl]} },
		Run: func(c *core.Ctx, i int64) {
			lo, up := lay[i/nl], lay[i%nl]
			c.Eval()
			c.Trans(3)
			p, err := layerAPI(lo, up)
			if err != nil {
				c.Outcome("layer-rejected")
				return
			}
			ds := docData(p)
			if len(ds) != 1 {
				c.Outcome("layer-not-one-document")
				return
			}
			wit := core.Canon(lo) + " <- " + core.Canon(up)
			got, gerr := p.OutputDocuments()
			direct, derr := evalStream(ds)
			c.Validated()
			if (gerr == nil) != (derr == nil) || (gerr == nil && !core.Equal(got, direct)) {
				c.Outcome("LAYERED-DIFFERS-FROM-DIRECT")
				c.Fail("layered-equals-direct", "outputs-differ", wit, map[string]any{"merged": ds[0], "layered": got, "layered_error": errStr(gerr), "direct": direct, "direct_error": errStr(derr)})
				return
			}
			c11Check(c, "refSelect/refHide-layered", ds)
		}}
	// a selected subtree that only ARRIVES through a reference (no literal marker in the document that outputs it)
	type refCase struct {
		name string
		docs []any
		want []any
	}
	refCases := []refCase{
		{"cross-document $replace into a hidden root", []any{
			map[string]any{"id": 1, "sel": map[string]any{"$output": true, "v": 1}},
			map[string]any{"$output": false, "x": map[string]any{"$replace": []any{map[string]any{"id": 1}, "sel"}}}},
			[]any{map[string]any{"v": 1}, map[string]any{"v": 1}}},
		{"cross-document $merge with local content into a plain root", []any{
			map[string]any{"id": 1, "sel": map[string]any{"$output": true, "v": 1}},
			map[string]any{"k": 0, "x": map[string]any{"$merge": map[string]any{"$match": map[string]any{"id": 1}, "$path": "sel"}, "w": 2}}},
			[]any{map[string]any{"v": 1}, map[string]any{"v": 1, "w": 2}}},
		{"same-document string reference below a hidden parent", []any{
			map[string]any{"h": map[string]any{"$output": false, "x": "$merge:t"}, "t": map[string]any{"$output": true, "v": 1}}},
			[]any{map[string]any{"v": 1}, map[string]any{"v": 1}}},
	}
	refSpace := core.Space{Name: "selection-arrives-through-a-reference", N: int64(len(refCases)), Chunk: 1,
		Desc: func(i int64) any { return refCases[i] },
		Run: func(c *core.Ctx, i int64) {
			rc := refCases[i]
			c.Eval()
			c.Trans(len(rc.docs) + 1)
			outs, err := evalStream(rc.docs)
			c.Validated()
			c.Nontrivial()
			if err != nil || multiset(outs) != multiset(rc.want) {
				c.Outcome("WRONG-OUTPUTS")
				c.Fail("refSelect/refHide-references", "wrong-outputs", "reference: "+rc.name, map[string]any{"docs": rc.docs, "got": outs, "error": errStr(err), "want": rc.want})
				return
			}
			c.Outcome("ok")
		}}
	return &core.Plan{
		Spaces:      []core.Space{single, streams, layered, refSpace},
		Rule:        "every tree with <= N nodes over keys {a, b, $output} and scalars {1, true, false} (so every map/list carries no marker, a true marker, a false marker, a non-bool marker or a marker with extra keys), every 2-document stream of trees with <= 3 (thorough 4) nodes, and every lower/upper layer pair of trees with <= 3 (thorough 4) nodes (markers contributed, overridden or removed by the upper layer); non-trivial = the tree contains a $output key",
		Assumptions: []string{"reference model ref.Outputs (select, hide, final) is the oracle; the relative order of a selected subtree and a selected descendant is compared as a multiset; a list carrying both markers is not judged"},
		Bounds:      map[string]any{"nodes": n, "trees": trees.Len()},
	}
}

// c11CountTrue counts $output: true markers (map keys and list marker entries).
func c11CountTrue(v any) int {
	n := 0
	switch x := v.(type) {
	case map[string]any:
		if b, ok := x["$output"].(bool); ok && b {
			n++
		}
		for _, c := range x {
			n += c11CountTrue(c)
		}
	case []any:
		for _, c := range x {
			n += c11CountTrue(c)
		}
	}
	return n
}

// c11RootMarked: the document root itself is selected.
func c11RootMarked(v any) bool {
	switch x := v.(type) {
	case map[string]any:
		b, ok := x["$output"].(bool)
		return ok && b
	case []any:
		for _, e := range x {
			if m, ok := e.(map[string]any); ok {
				if b, ok := m["$output"].(bool); ok && b {
					return true
				}
			}
		}
	}
	return false
}

// c11StripTrue removes every $output: true marker (keys, and list entries that are nothing but the marker).
func c11StripTrue(v any) any {
	switch x := v.(type) {
	case map[string]any:
		m := map[string]any{}
		for k, c := range x {
			if b, ok := c.(bool); k == "$output" && ok && b {
				continue
			}
			m[k] = c11StripTrue(c)
		}
		return m
	case []any:
		l := []any{}
		for _, e := range x {
			if em, ok := e.(map[string]any); ok && len(em) == 1 {
				if b, ok := em["$output"].(bool); ok && b {
					continue
				}
			}
			l = append(l, c11StripTrue(e))
		}
		return l
	}
	return v
}
