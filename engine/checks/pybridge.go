package checks

import (
	"encoding/json"
	"fmt"
	"os"
	"os/exec"
	"path/filepath"
	"strconv"

	"verif/core"
)

// pyItem is one file for the independent Python parsers (py/parse_any.py).
type pyItem struct {
	File   string `json:"file"`
	Format string `json:"format"`
}

type pyResult struct {
	Docs []any
	Err  string
}

// pyParse runs the batch parser once over items.
func pyParse(dir string, items []pyItem) ([]pyResult, error) {
	mf := filepath.Join(dir, "manifest.json")
	b, _ := json.Marshal(items)
	if err := os.WriteFile(mf, b, 0o644); err != nil {
		return nil, err
	}
	cmd := exec.Command("/usr/bin/python3", filepath.Join(core.VerifDir(), "py", "parse_any.py"), mf)
	out, err := cmd.Output()
	if err != nil {
		return nil, fmt.Errorf("python bridge: %v", err)
	}
	var raw []struct {
		Docs  []any  `json:"docs"`
		Error string `json:"error"`
	}
	if err := json.Unmarshal(out, &raw); err != nil {
		return nil, fmt.Errorf("python bridge output: %v", err)
	}
	res := make([]pyResult, len(raw))
	for i, r := range raw {
		res[i].Err = r.Error
		for _, d := range r.Docs {
			res[i].Docs = append(res[i].Docs, pyUntag(d))
		}
	}
	return res, nil
}

// pyUntag turns the type-tagged JSON of parse_any.py into plain Go values.
func pyUntag(v any) any {
	switch x := v.(type) {
	case map[string]any:
		if s, ok := x["$i"].(string); ok {
			if i, err := strconv.ParseInt(s, 10, 64); err == nil {
				return int(i)
			}
			// an integer literal no int64 holds: it denotes a float64 if one has exactly that value
			// (this is how an integral double beyond int64 is written without exponent)
			if f, err := strconv.ParseFloat(s, 64); err == nil && strconv.FormatFloat(f, 'f', -1, 64) == s {
				return f // the shortest decimal spelling of that double, written without an exponent
			}
			return "bigint:" + s
		}
		if s, ok := x["$f"].(string); ok {
			f, err := strconv.ParseFloat(s, 64)
			if err != nil {
				return "float:" + s
			}
			return f
		}
		if m, ok := x["$m"].(map[string]any); ok {
			out := map[string]any{}
			for k, c := range m {
				out[k] = pyUntag(c)
			}
			return out
		}
		return fmt.Sprintf("other:%v", x)
	case []any:
		out := make([]any, len(x))
		for i, c := range x {
			out[i] = pyUntag(c)
		}
		return out
	default:
		return v
	}
}
