package checks

import (
	"fmt"
	"os"
	"path/filepath"
	"strings"
	"syscall"
	"unsafe"

	"verif/core"
)

// C18 — with a root directory set, nothing outside it is ever read.

func init() {
	core.Register(&core.Check{ID: "C18", Title: "root confinement", Build: buildC18})
}

// ---- inotify monitor (raw syscalls): IN_OPEN|IN_ACCESS on files that must never be read

type c18Monitor struct {
	fd    int
	paths map[int32]string
}

func newC18Monitor() (*c18Monitor, error) {
	fd, err := syscall.InotifyInit1(syscall.IN_NONBLOCK | syscall.IN_CLOEXEC)
	if err != nil {
		return nil, err
	}
	return &c18Monitor{fd: fd, paths: map[int32]string{}}, nil
}

func (m *c18Monitor) watch(path string) {
	wd, err := syscall.InotifyAddWatch(m.fd, path, syscall.IN_OPEN|syscall.IN_ACCESS)
	if err == nil {
		m.paths[int32(wd)] = path
	}
}

// events drains the queue and returns the watched paths that were opened or read.
func (m *c18Monitor) events() []string {
	var out []string
	buf := make([]byte, 64*1024)
	for {
		n, err := syscall.Read(m.fd, buf)
		if n <= 0 || err != nil {
			break
		}
		off := 0
		for off+syscall.SizeofInotifyEvent <= n {
			ev := (*syscall.InotifyEvent)(unsafe.Pointer(&buf[off]))
			if ev.Mask&(syscall.IN_OPEN|syscall.IN_ACCESS) != 0 {
				out = append(out, m.paths[ev.Wd])
			}
			off += syscall.SizeofInotifyEvent + int(ev.Len)
		}
	}
	return out
}

func (m *c18Monitor) close() { syscall.Close(m.fd) }

// ---- configuration space

type c18Root struct {
	Name string
	Cwd  string // relative to the test dir T
	Arg  string // -r argument ("" = none, "ABS" = absolute path of root)
	Open bool   // the root is "/": nothing is outside
}

var c18Roots = []c18Root{
	{"dot", "root", ".", false},
	{"name-from-parent", ".", "root", false},
	{"dotdot-from-sub", "root/sub", "..", false},
	{"absolute", "root", "ABS", false},
	{"slash(control)", "root", "/", true},
}

// c18Ext is the format of the decoy files of the case being run (workers run one case at a time).
var c18Ext = "yaml"

func c18Content(ext, val string) string {
	switch ext {
	case "json", "jsonl":
		if val == "invalid" {
			return "{\"d\": \n"
		}
		return fmt.Sprintf("{\"d\": %q}\n", val)
	case "toml":
		if val == "invalid" {
			return "d = [\n"
		}
		return fmt.Sprintf("d = %q\n", val)
	}
	if val == "invalid" {
		return "d: [\n"
	}
	return "d: " + val + "\n"
}

var c18EntrySpellings = []string{"relative", "dot-slash", "absolute", "via-sub-dotdot"}

type c18Vector struct {
	Name     string
	TwinOK   bool // the non-escaping twin is expected to succeed
	Build    func(root, tdir string) (entry string, err error)
	TwinWant string // canonical expected output of the twin
}

func c18Write(path, content string) error {
	os.MkdirAll(filepath.Dir(path), 0o755)
	return os.WriteFile(path, []byte(content), 0o644)
}

var c18Vectors = []c18Vector{
	{"$parent-relative", true, func(root, tdir string) (string, error) {
		return "in.yaml", c18Write(filepath.Join(root, "in.yaml"), "e: 1\n$parent: "+tdir+"/decoy\n")
	}, `[{"d":"A","e":1}]`},
	{"$parent-from-subdir", true, func(root, tdir string) (string, error) {
		return "sub/in2.yaml", c18Write(filepath.Join(root, "sub", "in2.yaml"), "e: 1\n$parent: ../"+tdir+"/decoy\n")
	}, `[{"d":"A","e":1}]`},
	{"$parent-absolute", false, func(root, tdir string) (string, error) {
		abs, _ := filepath.Abs(filepath.Join(root, tdir, "decoy"))
		return "in.yaml", c18Write(filepath.Join(root, "in.yaml"), "e: 1\n$parent: "+abs+"\n")
	}, ""},
	{"$parent-wildcard", true, func(root, tdir string) (string, error) {
		return "in.yaml", c18Write(filepath.Join(root, "in.yaml"), "e: 1\n$parent: \""+tdir+"/*\"\n")
	}, `[{"d":"A","e":1}]`},
	{"file-symlink-relative", true, func(root, tdir string) (string, error) {
		return "link." + c18Ext, os.Symlink(tdir+"/decoy."+c18Ext, filepath.Join(root, "link."+c18Ext))
	}, `[{"d":"A"}]`},
	{"file-symlink-absolute", false, func(root, tdir string) (string, error) {
		abs, _ := filepath.Abs(filepath.Join(root, tdir, "decoy."+c18Ext))
		return "link." + c18Ext, os.Symlink(abs, filepath.Join(root, "link."+c18Ext))
	}, ""},
	{"file-symlink-chained", true, func(root, tdir string) (string, error) {
		if err := os.Symlink(tdir+"/decoy."+c18Ext, filepath.Join(root, "l2."+c18Ext)); err != nil {
			return "", err
		}
		return "l1." + c18Ext, os.Symlink("l2."+c18Ext, filepath.Join(root, "l1."+c18Ext))
	}, `[{"d":"A"}]`},
	{"dir-symlink-$parent", true, func(root, tdir string) (string, error) {
		if err := os.Symlink(tdir, filepath.Join(root, "d")); err != nil {
			return "", err
		}
		return "in.yaml", c18Write(filepath.Join(root, "in.yaml"), "e: 1\n$parent: d/decoy\n")
	}, `[{"d":"A","e":1}]`},
	{"dir-symlink-input-path", true, func(root, tdir string) (string, error) {
		return "d/decoy." + c18Ext, os.Symlink(tdir, filepath.Join(root, "d"))
	}, `[{"d":"A"}]`},
	{"symlink-target-name-has-parent", true, func(root, tdir string) (string, error) {
		if err := c18Write(filepath.Join(root, tdir, "decoy.kid."+c18Ext), map[string]string{"yaml": "kid: 1\n", "json": "{\"kid\": 1}\n", "jsonl": "{\"kid\": 1}\n", "toml": "kid = 1\n"}[c18Ext]); err != nil {
			return "", err
		}
		return "k." + c18Ext, os.Symlink(tdir+"/decoy.kid."+c18Ext, filepath.Join(root, "k."+c18Ext))
	}, `[{"d":"A","kid":1}]`},
	// two steps: the escape sits behind something that is itself inside the root
	{"$parent-of-an-in-root-parent", true, func(root, tdir string) (string, error) {
		if err := c18Write(filepath.Join(root, "mid.yaml"), "m: 1\n$parent: "+tdir+"/decoy\n"); err != nil {
			return "", err
		}
		return "in.yaml", c18Write(filepath.Join(root, "in.yaml"), "e: 1\n$parent: mid\n")
	}, `[{"d":"A","e":1,"m":1}]`},
	{"$parent-list-second-entry", true, func(root, tdir string) (string, error) {
		if err := c18Write(filepath.Join(root, "ok.yaml"), "o: 1\n"); err != nil {
			return "", err
		}
		return "in.yaml", c18Write(filepath.Join(root, "in.yaml"), "e: 1\n$parent: [ok, "+tdir+"/decoy]\n")
	}, `[{"e":1,"o":1},{"d":"A","e":1}]`},
	{"symlink-to-in-root-symlink-dir", true, func(root, tdir string) (string, error) {
		if err := os.Symlink("../"+tdir, filepath.Join(root, "sub", "d2")); err != nil {
			return "", err
		}
		if err := os.Symlink("sub/d2", filepath.Join(root, "d1")); err != nil {
			return "", err
		}
		return "in.yaml", c18Write(filepath.Join(root, "in.yaml"), "e: 1\n$parent: d1/decoy\n")
	}, `[{"d":"A","e":1}]`},
	{"filename-parent-is-a-symlink", true, func(root, tdir string) (string, error) {
		if err := os.Symlink(tdir+"/decoy."+c18Ext, filepath.Join(root, "base."+c18Ext)); err != nil {
			return "", err
		}
		return "base.kid.yaml", c18Write(filepath.Join(root, "base.kid.yaml"), "e: 1\n")
	}, `[{"d":"A","e":1}]`},
	// a chain that leaves the root and comes back: the link it passes through lives outside
	{"symlink-out-and-back", true, func(root, tdir string) (string, error) {
		back := filepath.Join(root, tdir, "back."+c18Ext)
		os.MkdirAll(filepath.Dir(back), 0o755)
		abs, _ := filepath.Abs(filepath.Join(root, "inside", "decoy."+c18Ext))
		rel, _ := filepath.Rel(filepath.Dir(back), abs)
		if err := os.Symlink(rel, back); err != nil {
			return "", err
		}
		return "ob." + c18Ext, os.Symlink(tdir+"/back."+c18Ext, filepath.Join(root, "ob."+c18Ext))
	}, `[{"d":"A"}]`},
	// an absolute first hop inside the root, then a relative hop that leaves it
	{"absolute-in-root-then-escape", false, func(root, tdir string) (string, error) {
		if err := os.Symlink(tdir+"/decoy."+c18Ext, filepath.Join(root, "hop."+c18Ext)); err != nil {
			return "", err
		}
		abs, _ := filepath.Abs(filepath.Join(root, "hop."+c18Ext))
		return "abs." + c18Ext, os.Symlink(abs, filepath.Join(root, "abs."+c18Ext))
	}, ""},
	{"input-path", true, func(root, tdir string) (string, error) {
		return tdir + "/decoy." + c18Ext, nil
	}, `[{"d":"A"}]`},
	{"virtual-extension", true, func(root, tdir string) (string, error) {
		if c18Ext == "json" {
			return tdir + "/decoy.yaml", nil
		}
		return tdir + "/decoy.json", nil
	}, `[{"d":"A"}]`},
}

var c18DecoyStates = []struct{ Name, Content string }{
	{"A", "d: A\n"},
	{"B", "d: B\n"},
	{"invalid", "d: [\n"},
	{"absent", ""},
}

type c18Case struct {
	Root     c18Root
	Spelling string
	Vector   int
	Escaping bool
	Outside  string // name of the directory next to the root that holds the decoy
	SkipP    bool   // -P as well: inheritance off must not switch the confinement off
	Ext      string // format of the decoy files ("" = yaml)
}

func (cs c18Case) String() string {
	ext := ""
	if cs.Ext != "" {
		ext = " decoy-format=" + cs.Ext
	}
	return fmt.Sprintf("root=%s entry=%s vector=%s escaping=%v outside-dir=%s -P=%v%s", cs.Root.Name, cs.Spelling, c18Vectors[cs.Vector].Name, cs.Escaping, cs.Outside, cs.SkipP, ext)
}

func c18Run(c *core.Ctx, cs c18Case) {
	vec := c18Vectors[cs.Vector]
	type obs struct {
		code   int
		stdout string
		opened []string
	}
	var all []obs
	wit := cs.String()
	c18Ext = "yaml"
	if cs.Ext != "" {
		c18Ext = cs.Ext
	}
	defer func() { c18Ext = "yaml" }()
	for _, st := range c18DecoyStates {
		T := scratchDir()
		root := filepath.Join(T, "root")
		os.MkdirAll(filepath.Join(root, "sub"), 0o755)
		os.MkdirAll(filepath.Join(root, "inside"), 0o755)
		os.MkdirAll(filepath.Join(T, cs.Outside), 0o755)
		tdir := "inside"
		if cs.Escaping {
			tdir = "../" + cs.Outside
		}
		// the twin's target always holds content A; the outside decoy varies in both cases
		c18Write(filepath.Join(root, "inside", "decoy."+c18Ext), c18Content(c18Ext, "A"))
		if cs.Escaping {
			// same-named files inside the root where a clamped "../" path would land: reading them
			// instead would make the escape "work" and depend on whether the outside file exists
			c18Write(filepath.Join(root, cs.Outside, "decoy."+c18Ext), c18Content(c18Ext, "SHADOW"))
			c18Write(filepath.Join(root, "sub", cs.Outside, "decoy."+c18Ext), c18Content(c18Ext, "SHADOW"))
		}
		outside := filepath.Join(T, cs.Outside, "decoy."+c18Ext)
		if st.Name != "absent" {
			c18Write(outside, c18Content(c18Ext, st.Name))
		}
		entry, err := vec.Build(root, tdir)
		if err != nil {
			os.RemoveAll(T)
			c.Fail("harness", "cannot-build", wit, err.Error())
			return
		}
		cwd := filepath.Join(T, cs.Root.Cwd)
		absEntry := filepath.Join(root, entry)
		relRoot, _ := filepath.Rel(cwd, root)
		arg := ""
		switch cs.Spelling {
		case "relative":
			arg = relRoot + "/" + entry
		case "dot-slash":
			arg = "./" + relRoot + "/" + entry
		case "absolute":
			arg = absEntry
			if strings.HasPrefix(entry, "..") {
				arg = root + "/" + entry
			}
		case "via-sub-dotdot":
			arg = relRoot + "/sub/../" + entry
		}
		var args []string
		switch cs.Root.Arg {
		case "":
		case "ABS":
			args = append(args, "-r", root)
		default:
			args = append(args, "-r", cs.Root.Arg)
		}
		if cs.SkipP {
			args = append(args, "-P")
		}
		args = append(args, "-f", "json", arg)
		mon, merr := newC18Monitor()
		if merr != nil {
			os.RemoveAll(T)
			c.Fail("harness", "inotify", wit, merr.Error())
			return
		}
		for _, w := range []string{outside, filepath.Join(T, cs.Outside, "decoy.kid."+c18Ext)} {
			if _, err := os.Lstat(w); err == nil {
				mon.watch(w)
			}
		}
		c.Eval()
		c.Trans(1)
		so, _, code, rerr := runTool(cwd, "bkl", args...)
		o := obs{code: code, stdout: so, opened: mon.events()}
		mon.close()
		os.RemoveAll(T)
		if rerr != nil {
			c.Fail("harness", "cannot-run", wit, rerr.Error())
			return
		}
		all = append(all, o)
		c.State(fmt.Sprintf("%d|%s", code, so))
		if cs.Root.Open {
			continue
		}
		// (1) nothing outside the root is opened or read
		if len(o.opened) > 0 {
			c.Outcome("OUTSIDE-FILE-READ")
			c.Fail("no-read-outside-root", "outside-file-opened", wit+" decoy="+st.Name, map[string]any{"args": args, "opened": len(o.opened), "exit": code, "stdout": so})
			return
		}
	}
	c.Validated()
	c.Nontrivial()
	if cs.Root.Open {
		// control: with root "/" the same vectors do reach the decoy, so the configuration really is an escape
		if cs.Escaping && vec.TwinOK && vec.Name != "file-symlink-absolute" {
			a, b := all[0], all[1]
			if a.code != 0 || b.code != 0 || a.stdout == b.stdout {
				c.Outcome("control-vector-does-not-reach-decoy")
				c.Extra("vacuous_vectors", 1)
			} else if len(a.opened) == 0 || len(b.opened) == 0 {
				// the monitor must see the read that demonstrably happened
				c.Fail("harness", "inotify-monitor-blind", wit, map[string]any{"stdout_A": a.stdout, "stdout_B": b.stdout})
			} else {
				c.Outcome("control-reaches-decoy")
				c.Extra("control_reads_seen_by_monitor", int64(len(a.opened)))
			}
		}
		return
	}
	// (2) non-interference: status and stdout identical across decoy states
	for k := 1; k < len(all); k++ {
		if (all[k].code == 0) != (all[0].code == 0) || all[k].stdout != all[0].stdout {
			c.Outcome("DEPENDS-ON-OUTSIDE-FILE")
			c.Fail("non-interference", "result-depends-on-outside-file", wit, map[string]any{"decoy_A": all[0], "decoy_" + c18DecoyStates[k].Name: all[k]})
			return
		}
	}
	// (3) containment verdict
	if cs.Escaping {
		if all[0].code == 0 {
			c.Outcome("ESCAPE-SUCCEEDS")
			c.Fail("refContain", "escape-succeeds", wit, map[string]any{"stdout": all[0].stdout})
			return
		}
		if all[0].stdout != "" {
			c.Fail("refContain", "escape-fails-with-output", wit, map[string]any{"stdout": all[0].stdout})
			return
		}
		c.Outcome("escape-refused")
		return
	}
	if !vec.TwinOK {
		c.Outcome("twin-unspecified")
		return
	}
	if all[0].code != 0 {
		c.Outcome("TWIN-REFUSED")
		c.Fail("refContain", "in-root-access-refused", wit, nil)
		return
	}
	got, perr := parseJSONStream(all[0].stdout)
	if perr != nil || core.CanonLoose(got) != vec.TwinWant {
		c.Outcome("TWIN-WRONG-OUTPUT")
		c.Fail("refContain", "in-root-output-wrong", wit, map[string]any{"stdout": all[0].stdout, "want": vec.TwinWant})
		return
	}
	c.Outcome("twin-succeeds")
}

func buildC18(tier string) *core.Plan {
	var cases []c18Case
	for _, r := range c18Roots {
		for _, sp := range c18EntrySpellings {
			for v := range c18Vectors {
				// the outside directory is once unrelated and once a sibling whose name extends the root's name
				cases = append(cases, c18Case{r, sp, v, true, "outside", false, ""}, c18Case{r, sp, v, true, "root-x", false, ""}, c18Case{r, sp, v, false, "outside", false, ""})
				// the same escape with decoys in the other formats (each format has its own reader)
				for _, ext := range []string{"json", "toml", "jsonl"} {
					cases = append(cases, c18Case{r, sp, v, true, "outside", false, ext})
				}
				cases = append(cases, c18Case{r, sp, v, false, "outside", false, "json"})
				if tier == "thorough" {
					// the full product: every format also towards the sibling directory and as in-root twin, and -P in every format
					viaInput := false
					switch c18Vectors[v].Name {
					case "file-symlink-relative", "file-symlink-chained", "dir-symlink-input-path", "input-path", "virtual-extension":
						viaInput = true // (-P switches inheritance off: only vectors that escape through the input path still escape)
					}
					for _, ext := range []string{"json", "toml", "jsonl"} {
						cases = append(cases, c18Case{r, sp, v, true, "root-x", false, ext})
						if viaInput {
							cases = append(cases, c18Case{r, sp, v, true, "outside", true, ext})
						}
						if ext != "json" {
							cases = append(cases, c18Case{r, sp, v, false, "outside", false, ext})
						}
					}
					if viaInput {
						cases = append(cases, c18Case{r, sp, v, true, "root-x", true, ""})
					}
				}
				switch c18Vectors[v].Name {
				case "file-symlink-relative", "file-symlink-chained", "dir-symlink-input-path", "input-path", "virtual-extension":
					// these reach the decoy through the input path itself, so they also work with -P
					cases = append(cases, c18Case{r, sp, v, true, "outside", true, ""}, c18Case{r, sp, v, false, "outside", true, ""})
				}
			}
		}
	}
	cli := core.Space{Name: "cli-root-x-entry-x-vector-x-decoy", N: int64(len(cases)),
		Desc: func(i int64) any { return cases[i].String() },
		Run:  func(c *core.Ctx, i int64) { c18Run(c, cases[i]) }}

	// library: nested SetRoot calls; the outer root's files are outside the inner root
	lib := core.Space{Name: "library-nested-setroot", N: int64(len(c18DecoyStates)), Chunk: 1,
		Desc: func(i int64) any {
			return "SetRoot(root); SetRoot(root/sub); sub/in.yaml has $parent: ../up; up.yaml is " + c18DecoyStates[i].Name
		},
		Run: func(c *core.Ctx, i int64) {
			st := c18DecoyStates[i]
			T := scratchDir()
			defer os.RemoveAll(T)
			root := filepath.Join(T, "root")
			os.MkdirAll(filepath.Join(root, "sub"), 0o755)
			up := filepath.Join(root, "up.yaml")
			if st.Name != "absent" {
				c18Write(up, st.Content)
			}
			c18Write(filepath.Join(root, "sub", "in.yaml"), "e: 1\n$parent: ../up\n")
			c18Write(filepath.Join(root, "sub", "ok.yaml"), "e: 2\n")
			mon, err := newC18Monitor()
			if err != nil {
				return
			}
			defer mon.close()
			if st.Name != "absent" {
				mon.watch(up)
			}
			c.Eval()
			c.Trans(4)
			p := newParser()
			if err := p.SetRoot(root); err != nil {
				c.Fail("library-setroot", "setroot-fails", "outer", errStr(err))
				return
			}
			if err := p.SetRoot(filepath.Join(root, "sub")); err != nil {
				c.Fail("library-setroot", "setroot-fails", "inner", errStr(err))
				return
			}
			err = p.MergeFileLayers(filepath.Join(root, "sub", "in.yaml"))
			opened := mon.events()
			c.Validated()
			c.Nontrivial()
			if len(opened) > 0 {
				c.Fail("no-read-outside-root", "outside-file-opened", "library nested SetRoot decoy="+st.Name, nil)
				return
			}
			if err == nil {
				c.Fail("refContain", "escape-succeeds", "library nested SetRoot decoy="+st.Name, docData(p))
				return
			}
			// SetRoot to a directory outside the current root must fail
			p2 := newParser()
			p2.SetRoot(filepath.Join(root, "sub"))
			if err := p2.SetRoot(root); err == nil {
				c.Fail("refContain", "setroot-widens", "SetRoot(sub) then SetRoot(root)", nil)
				return
			}
			// and the in-root file still loads
			p3 := newParser()
			p3.SetRoot(root)
			p3.SetRoot(filepath.Join(root, "sub"))
			if err := p3.MergeFileLayers(filepath.Join(root, "sub", "ok.yaml")); err != nil {
				c.Fail("refContain", "in-root-access-refused", "library nested SetRoot ok.yaml", errStr(err))
				return
			}
			c.Outcome("library-escape-refused")
		}}

	lib2 := core.Space{Name: "library-read-then-setroot", N: int64(len(c18DecoyStates)), Chunk: 1,
		Desc: func(i int64) any {
			return "MergeFileLayers(outside/decoy) while unconfined; SetRoot(root); MergeFileLayers(root/in.yaml with $parent: ../outside/decoy); decoy is then " + c18DecoyStates[i].Name
		},
		Run: func(c *core.Ctx, i int64) {
			st := c18DecoyStates[i]
			T := scratchDir()
			defer os.RemoveAll(T)
			root := filepath.Join(T, "root")
			decoy := filepath.Join(T, "outside", "decoy.yaml")
			c18Write(decoy, "d: A\n")
			c18Write(filepath.Join(root, "in.yaml"), "e: 1\n$parent: ../outside/decoy\n")
			c.Eval()
			c.Trans(4)
			p := newParser()
			if err := p.MergeFileLayers(decoy); err != nil {
				c.Fail("harness", "unconfined-read-fails", "library read-then-setroot", errStr(err))
				return
			}
			if err := p.SetRoot(root); err != nil {
				c.Fail("library-setroot", "setroot-fails", "library read-then-setroot", errStr(err))
				return
			}
			// now the decoy changes (or disappears); nothing of it may be read or remembered
			if st.Name == "absent" {
				os.Remove(decoy)
			} else {
				os.WriteFile(decoy, []byte(st.Content), 0o644)
			}
			mon, merr := newC18Monitor()
			if merr != nil {
				return
			}
			defer mon.close()
			if st.Name != "absent" {
				mon.watch(decoy)
			}
			before := core.Canon(docData(p))
			err := p.MergeFileLayers(filepath.Join(root, "in.yaml"))
			opened := mon.events()
			c.Validated()
			c.Nontrivial()
			if len(opened) > 0 {
				c.Fail("no-read-outside-root", "outside-file-opened", "library read-then-setroot decoy="+st.Name, nil)
				return
			}
			if err == nil {
				c.Outcome("ESCAPE-SUCCEEDS")
				c.Fail("refContain", "escape-succeeds", "library read-then-setroot decoy="+st.Name, map[string]any{"before": before, "after": docData(p)})
				return
			}
			c.Outcome("library-escape-refused")
		}}
	return &core.Plan{
		Spaces: []core.Space{cli, lib, lib2, c18ChdirSpace()},
		Rule: "product of 5 root spellings (., name from the parent, .. from a sub-directory, absolute, and / as a control) x 4 entry spellings x 18 escape vectors ($parent relative/from a sub-directory/absolute/wildcard, file symlink relative/absolute/chained, directory symlink via $parent and via the input path, symlink whose target name has a parent, input path with .., virtual extension, an escaping $parent behind an in-root parent, as the second entry of a $parent list, a symlinked directory behind an in-root symlink, a symlinked file as the filename parent, a link chain that leaves the root and returns, an absolute in-root link followed by an escaping one) " +
			"x {escaping to an unrelated directory, escaping to a sibling directory whose name extends the root name, non-escaping twin} x 4 states of the outside decoy (content A, content B, invalid, absent); every escaping case also with the decoys in json, toml and jsonl",
		Assumptions: []string{"an inotify watch (IN_OPEN|IN_ACCESS) on every decoy file outside the root observes opens and reads by the bkl process; stat and readlink do not raise these events and are not 'reading contents'",
			"with -r / nothing is outside: those runs are the control showing that each vector does reach the decoy when not confined",
			"absolute $parent and absolute symlinks are refused even inside the root (os.Root semantics); their twins are not judged"},
		Bounds: map[string]any{"cases": len(cases), "runs_per_case": len(c18DecoyStates)},
	}
}
