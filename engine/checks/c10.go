package checks

import (
	"fmt"
	"strings"

	"verif/core"
	"verif/gen"
)

// C10 — $merge and $replace behave as if the referenced subtree were written inline.

func init() {
	core.Register(&core.Check{ID: "C10", Title: "references behave as if inlined", Build: buildC10})
}

type c10Case struct {
	Kind    string `json:"kind"`
	Docs    []any  `json:"docs"`              // the referencing stream
	Inlined []any  `json:"inlined,omitempty"` // the hand-inlined stream (nil = must fail)
	MustErr bool   `json:"must_fail"`
}

// path spellings
func c10Spellings(keys []string) []any {
	var out []any
	dotFree := true
	for _, k := range keys {
		if strings.Contains(k, ".") {
			dotFree = false
		}
	}
	if dotFree {
		out = append(out, strings.Join(keys, "."))
	}
	l := make([]any, len(keys))
	q := make([]string, len(keys))
	for i, k := range keys {
		l[i] = k
		q[i] = fmt.Sprintf("%q", k)
	}
	out = append(out, l)
	out = append(out, "["+strings.Join(q, ", ")+"]")
	return out
}

// c10Layer applies the ordinary merge rules (the real layering API on copies):
// referenced value layered onto the local content.
// errC10Unspec: a referenced null layered onto local content - "a child null over a value" is an
// Unspecified zone of the merge rules (3.1), so such cases are executed nowhere and judged nowhere.
var errC10Unspec = fmt.Errorf("unspecified: null layered onto content")

func c10Layer(local, referenced any) (any, error) {
	if referenced == nil {
		return nil, errC10Unspec
	}
	p, err := layerAPI(local, referenced)
	if err != nil {
		return nil, err
	}
	ds := p.Documents()
	if len(ds) != 1 {
		return nil, fmt.Errorf("harness: %d documents", len(ds))
	}
	return core.Clone(ds[0].Data), nil
}

type c10Host struct {
	form   string
	value  any                         // what is written at the host position
	inline func(tval any) (any, error) // what the host must evaluate to
}

// c10HostForms: every way to write a reference to path (spelled sp) at a fresh position.
func c10HostForms(keys []string, tval any) []c10Host {
	var hs []c10Host
	ident := func(t any) (any, error) { return core.Clone(t), nil }
	for si, sp := range c10Spellings(keys) {
		tag := fmt.Sprintf("sp%d", si)
		if s, ok := sp.(string); ok {
			hs = append(hs, c10Host{"$merge:string/" + tag, "$merge:" + s, ident})
			hs = append(hs, c10Host{"$replace:string/" + tag, "$replace:" + s, ident})
		}
		hs = append(hs, c10Host{"{$merge}/" + tag, map[string]any{"$merge": sp}, func(t any) (any, error) { return c10Layer(map[string]any{}, t) }})
		hs = append(hs, c10Host{"{$replace}/" + tag, map[string]any{"$replace": sp}, ident})
	}
	sp := c10Spellings(keys)[0]
	locals := []map[string]any{{"z": 9}, {"z": map[string]any{"y": 1}}}
	if tm, ok := tval.(map[string]any); ok {
		for _, k := range core.SortedKeys(tm) {
			locals = append(locals, map[string]any{k: 0}, map[string]any{k: core.Clone(tm[k])}, map[string]any{k: map[string]any{"deep": 1}})
			break
		}
	}
	for li, loc := range locals {
		loc := loc
		hv := core.Clone(loc).(map[string]any)
		hv["$merge"] = sp
		hs = append(hs, c10Host{fmt.Sprintf("{$merge,local%d}", li), hv, func(t any) (any, error) { return c10Layer(loc, t) }})
	}
	hv := map[string]any{"$replace": sp, "z": 9}
	hs = append(hs, c10Host{"{$replace,local}", hv, ident})
	// list hosts
	hs = append(hs, c10Host{"[0,{$merge}]", []any{0, map[string]any{"$merge": sp}}, func(t any) (any, error) { return c10Layer([]any{0}, t) }})
	hs = append(hs, c10Host{"[{$merge},0]", []any{map[string]any{"$merge": sp}, 0}, func(t any) (any, error) { return c10Layer([]any{0}, t) }})
	hs = append(hs, c10Host{"[{$merge},{$merge}]", []any{map[string]any{"$merge": sp}, map[string]any{"$merge": sp}}, func(t any) (any, error) {
		a, err := c10Layer([]any{}, t)
		if err != nil {
			return nil, err
		}
		return c10Layer(a, t)
	}})
	hs = append(hs, c10Host{"[0,{$replace}]", []any{0, map[string]any{"$replace": sp}}, ident})
	// a map host with local keys that happens to be a list entry is a host, not the list's marker
	entryLocal := func(wrap func(e any) any) func(t any) (any, error) {
		return func(t any) (any, error) {
			e, err := c10Layer(map[string]any{"z": 9}, t)
			if err != nil {
				return nil, err
			}
			return wrap(e), nil
		}
	}
	hs = append(hs, c10Host{"[0,{$merge,local}]", []any{0, map[string]any{"$merge": sp, "z": 9}}, entryLocal(func(e any) any { return []any{0, e} })})
	hs = append(hs, c10Host{"[{$merge,local}]", []any{map[string]any{"$merge": sp, "z": 9}}, entryLocal(func(e any) any { return []any{e} })})
	hs = append(hs, c10Host{"[{$merge,local},{x:1}]", []any{map[string]any{"$merge": sp, "z": 9}, map[string]any{"x": 1}}, entryLocal(func(e any) any { return []any{e, map[string]any{"x": 1}} })})
	hs = append(hs, c10Host{"[0,{$replace,local}]", []any{0, map[string]any{"$replace": sp, "z": 9}}, func(t any) (any, error) { return []any{0, core.Clone(t)}, nil }})
	return hs
}

func c10MapPaths(v any) [][]string {
	var out [][]string
	var rec func(x any, p []string)
	rec = func(x any, p []string) {
		if len(p) > 0 {
			out = append(out, append([]string{}, p...))
		}
		if m, ok := x.(map[string]any); ok {
			for _, k := range core.SortedKeys(m) {
				rec(m[k], append(append([]string{}, p...), k))
			}
		}
	}
	rec(v, nil)
	return out
}

func toAnyPath(p []string) []any {
	out := make([]any, len(p))
	for i, s := range p {
		out[i] = s
	}
	return out
}

func isPrefix(a, b []string) bool {
	if len(a) > len(b) {
		return false
	}
	for i := range a {
		if a[i] != b[i] {
			return false
		}
	}
	return true
}

// c10Cases builds all single-host cases (and chains) for one base tree.
func c10Cases(base map[string]any, chains bool) []c10Case {
	var out []c10Case
	paths := c10MapPaths(base)
	for _, t := range paths {
		tval := getAt(base, toAnyPath(t))
		forms := c10HostForms(t, tval)
		// host positions: a new key "h" in the root and in every map not inside the target
		var hostMaps [][]string
		hostMaps = append(hostMaps, nil)
		for _, m := range paths {
			if _, ok := getAt(base, toAnyPath(m)).(map[string]any); ok && !isPrefix(t, m) {
				hostMaps = append(hostMaps, m)
			}
		}
		for _, hm := range hostMaps {
			for _, f := range forms {
				mm := core.Clone(getAt(base, toAnyPath(hm))).(map[string]any)
				mm["h"] = core.Clone(f.value)
				d := setAt(base, toAnyPath(hm), mm)
				iv, err := f.inline(tval)
				if err == errC10Unspec {
					continue
				}
				cs := c10Case{Kind: "new-key " + f.form, Docs: []any{d}}
				if err != nil {
					cs.MustErr = true
				} else {
					im := core.Clone(getAt(base, toAnyPath(hm))).(map[string]any)
					im["h"] = iv
					cs.Inlined = []any{setAt(base, toAnyPath(hm), im)}
				}
				out = append(out, cs)
				if chains && len(hm) == 0 && err == nil {
					out = append(out, c10Chains(base, t, f, iv)...)
				}
			}
		}
		// an existing leaf / map / list that does not overlap the target becomes the host
		for _, l := range paths {
			if isPrefix(t, l) || isPrefix(l, t) {
				continue
			}
			lv := getAt(base, toAnyPath(l))
			sp := c10Spellings(t)[0]
			switch x := lv.(type) {
			case map[string]any:
				hv := core.Clone(x).(map[string]any)
				hv["$merge"] = sp
				iv, err := c10Layer(x, tval)
				cs := c10Case{Kind: "existing-map {$merge}", Docs: []any{setAt(base, toAnyPath(l), hv)}}
				if err == errC10Unspec {
					break
				}
				if err != nil {
					cs.MustErr = true
				} else {
					cs.Inlined = []any{setAt(base, toAnyPath(l), iv)}
				}
				out = append(out, cs)
				rv := core.Clone(x).(map[string]any)
				rv["$replace"] = sp
				out = append(out, c10Case{Kind: "existing-map {$replace}", Docs: []any{setAt(base, toAnyPath(l), rv)}, Inlined: []any{setAt(base, toAnyPath(l), core.Clone(tval))}})
			case []any:
				hv := append(core.Clone(x).([]any), map[string]any{"$merge": sp})
				iv, err := c10Layer(x, tval)
				cs := c10Case{Kind: "existing-list {$merge}", Docs: []any{setAt(base, toAnyPath(l), hv)}}
				if err == errC10Unspec {
					break
				}
				if err != nil {
					cs.MustErr = true
				} else {
					cs.Inlined = []any{setAt(base, toAnyPath(l), iv)}
				}
				out = append(out, cs)
				rv := append([]any{map[string]any{"$replace": sp}}, core.Clone(x).([]any)...)
				out = append(out, c10Case{Kind: "existing-list {$replace}", Docs: []any{setAt(base, toAnyPath(l), rv)}, Inlined: []any{setAt(base, toAnyPath(l), core.Clone(tval))}})
			default:
				if s, ok := sp.(string); ok {
					out = append(out, c10Case{Kind: "leaf $merge:", Docs: []any{setAt(base, toAnyPath(l), "$merge:"+s)}, Inlined: []any{setAt(base, toAnyPath(l), core.Clone(tval))}})
					out = append(out, c10Case{Kind: "leaf $replace:", Docs: []any{setAt(base, toAnyPath(l), "$replace:"+s)}, Inlined: []any{setAt(base, toAnyPath(l), core.Clone(tval))}})
				}
			}
		}
	}
	// dangling references
	for _, f := range c10HostForms([]string{"nope"}, nil) {
		d := core.Clone(base).(map[string]any)
		d["h"] = core.Clone(f.value)
		out = append(out, c10Case{Kind: "dangling " + f.form, Docs: []any{d}, MustErr: true})
	}
	for _, t := range paths {
		dp := append(append([]string{}, t...), "nope")
		d := core.Clone(base).(map[string]any)
		d["h"] = map[string]any{"$merge": toAnyPath(dp)}
		out = append(out, c10Case{Kind: "dangling-below-target", Docs: []any{d}, MustErr: true})
	}
	return out
}

// c10Chains: a second host referring to the first host or to its target; both
// processing orders (the second host sorts before or after the first).
func c10Chains(base map[string]any, t []string, f c10Host, iv any) []c10Case {
	var out []c10Case
	tval := getAt(base, toAnyPath(t))
	for _, names := range [][2]string{{"h", "i"}, {"i", "h"}} {
		h1, h2 := names[0], names[1]
		for _, second := range []struct {
			form    string
			val     any
			want    any
			layered bool // the expected value is the first host's value layered onto {}
		}{
			{"$merge:first", "$merge:" + h1, iv, false},
			{"{$merge: first}", map[string]any{"$merge": h1}, nil, true},
			{"$replace:first", "$replace:" + h1, iv, false},
			{"{$replace: [first]}", map[string]any{"$replace": []any{h1}}, iv, false},
			{"same-target", map[string]any{"$replace": toAnyPath(t)}, tval, false},
			{"[{$merge: first}, 9]", []any{map[string]any{"$merge": h1}, 9}, nil, false},
			{"[{$merge: first}]", []any{map[string]any{"$merge": h1}}, nil, false},
		} {
			want := second.want
			if second.form == "[{$merge: first}, 9]" || second.form == "[{$merge: first}]" {
				// a list-marker reference to the first host: the first host's VALUE layered onto the local entries
				local := []any{9}
				if second.form == "[{$merge: first}]" {
					local = []any{}
				}
				w, err := c10Layer(local, iv)
				if err != nil {
					continue
				}
				want = w
			}
			if second.layered {
				w, err := c10Layer(map[string]any{}, iv)
				if err != nil {
					continue
				}
				want = w
			}
			d := core.Clone(base).(map[string]any)
			d[h1] = core.Clone(f.value)
			d[h2] = core.Clone(second.val)
			in := core.Clone(base).(map[string]any)
			in[h1] = core.Clone(iv)
			in[h2] = core.Clone(want)
			out = append(out, c10Case{Kind: "chain " + f.form + " <- " + second.form + " as " + h2, Docs: []any{d}, Inlined: []any{in}})
		}
	}
	return out
}

// c10Cross builds cross-document cases over 2-3 document streams.
func c10Cross(base map[string]any) []c10Case {
	var out []c10Case
	paths := c10MapPaths(base)
	mk := func(id int, b map[string]any) map[string]any {
		m := core.Clone(b).(map[string]any)
		m["id"] = id
		return m
	}
	for _, t := range paths {
		tval := getAt(base, toAnyPath(t))
		for _, dir := range []string{"$merge", "$replace"} {
			refs := []any{
				map[string]any{"$match": map[string]any{"id": 1}, "$path": toAnyPath(t)},
				append([]any{map[string]any{"id": 1}}, toAnyPath(t)...),
			}
			if sp, ok := c10Spellings(t)[0].(string); ok {
				// the dotted string spelling of $path
				refs = append(refs, map[string]any{"$match": map[string]any{"id": 1}, "$path": sp})
			}
			for fi, ref := range refs {
				iv := core.Clone(tval)
				if dir == "$merge" {
					w, err := c10Layer(map[string]any{}, tval)
					if err != nil {
						continue
					}
					iv = w
				}
				host := map[string]any{"id": 9, "h": map[string]any{dir: ref}}
				inl := map[string]any{"id": 9, "h": iv}
				kind := fmt.Sprintf("cross %s form%d", dir, fi)
				// exactly one match, host before and after the target document
				out = append(out, c10Case{Kind: kind + " one-match", Docs: []any{mk(1, base), host}, Inlined: []any{mk(1, base), inl}})
				out = append(out, c10Case{Kind: kind + " one-match host-first", Docs: []any{host, mk(1, base)}, Inlined: []any{inl, mk(1, base)}})
				out = append(out, c10Case{Kind: kind + " one-of-three", Docs: []any{mk(2, base), mk(1, base), host}, Inlined: []any{mk(2, base), mk(1, base), inl}})
				// none and two
				out = append(out, c10Case{Kind: kind + " no-match", Docs: []any{mk(2, base), host}, MustErr: true})
				out = append(out, c10Case{Kind: kind + " two-matches", Docs: []any{mk(1, base), mk(1, map[string]any{"other": 1}), host}, MustErr: true})
			}
		}
	}
	// the referenced subtree itself holds a reference whose path exists in both documents with
	// different content: inlined into the host it resolves in the HOST document, and the target
	// document must still evaluate to its own value afterwards (host before and after the target)
	for _, inner := range []any{
		map[string]any{"$merge": "p", "x": 1},
		map[string]any{"$merge": "p"},
		map[string]any{"deep": map[string]any{"$merge": "p", "x": 1}},
		[]any{map[string]any{"$merge": "q"}, 0},
		map[string]any{"k": "$merge:p.v"},
	} {
		target := map[string]any{"id": 1, "a": inner, "p": map[string]any{"v": "target"}, "q": []any{"tq"}}
		for _, dir := range []string{"$replace", "$merge"} {
			for fi, ref := range []any{
				map[string]any{"$match": map[string]any{"id": 1}, "$path": "a"},
				[]any{map[string]any{"id": 1}, "a"},
			} {
				if dir == "$merge" {
					if _, isList := inner.([]any); isList {
						continue
					}
				}
				host := map[string]any{"id": 9, "p": map[string]any{"v": "host"}, "q": []any{"hq"}, "h": map[string]any{dir: ref}}
				inl := map[string]any{"id": 9, "p": map[string]any{"v": "host"}, "q": []any{"hq"}, "h": core.Clone(inner)}
				if dir == "$merge" {
					// {$merge: ref} with no local content = the referenced value layered onto {}
					w, err := c10Layer(map[string]any{}, inner)
					if err != nil {
						continue
					}
					inl["h"] = w
				}
				kind := fmt.Sprintf("cross nested-reference %s form%d", dir, fi)
				out = append(out, c10Case{Kind: kind + " host-first", Docs: []any{host, target}, Inlined: []any{inl, target}})
				out = append(out, c10Case{Kind: kind + " host-last", Docs: []any{target, host}, Inlined: []any{target, inl}})
			}
		}
	}
	// the referenced DOCUMENT carries its own root-level $merge / $replace next to the data the
	// pattern matches on: it must still be found (and counted when the pattern is ambiguous)
	for _, rootDir := range []string{"$merge", "$replace"} {
		tgt := map[string]any{"id": 1, rootDir: "src", "src": map[string]any{"v": 1}, "a": map[string]any{"k": 2}}
		if rootDir == "$replace" {
			// a root-level $replace swaps the whole document when evaluated, but the stored (matched) tree still has id and a
			tgt = map[string]any{"id": 1, rootDir: "src", "src": map[string]any{"v": 1, "id": 1}, "a": map[string]any{"k": 2}}
		}
		other := map[string]any{"id": 2, "a": map[string]any{"k": 3}}
		for fi, ref := range []any{
			map[string]any{"$match": map[string]any{"id": 1}, "$path": "a"},
			[]any{map[string]any{"id": 1}, "a"},
		} {
			host := map[string]any{"id": 9, "h": map[string]any{"$replace": ref}}
			inl := map[string]any{"id": 9, "h": map[string]any{"k": 2}}
			kind := fmt.Sprintf("cross target-doc-with-root-%s form%d", rootDir, fi)
			out = append(out, c10Case{Kind: kind + " found", Docs: []any{tgt, other, host}, Inlined: []any{tgt, other, inl}})
			out = append(out, c10Case{Kind: kind + " host-first", Docs: []any{host, other, tgt}, Inlined: []any{inl, other, tgt}})
			dup := map[string]any{"id": 1, "a": map[string]any{"k": 7}}
			out = append(out, c10Case{Kind: kind + " ambiguous", Docs: []any{tgt, dup, host}, MustErr: true})
			out = append(out, c10Case{Kind: kind + " ambiguous-reversed", Docs: []any{dup, tgt, host}, MustErr: true})
		}
	}
	// several cross-document references in ONE host document: the same pattern twice, and patterns
	// that only print alike ({id: 1} / {id: "1"}, {id: true} / {id: "true"}) select different documents
	for _, pr := range [][2]any{{1, "1"}, {true, "true"}, {1, 1}, {"a b", "a b"}, {1.5, "1.5"}} {
		da := map[string]any{"id": pr[0], "a": map[string]any{"who": "first"}}
		db := map[string]any{"id": pr[1], "a": map[string]any{"who": "second"}}
		if core.Equal(pr[0], pr[1]) {
			db = map[string]any{"id": "other", "a": map[string]any{"who": "second"}}
		}
		for fi, mkref := range []func(id any) any{
			func(id any) any { return map[string]any{"$match": map[string]any{"id": id}, "$path": "a"} },
			func(id any) any { return []any{map[string]any{"id": id}, "a"} },
		} {
			host := map[string]any{"id": 9, "h": map[string]any{"$replace": mkref(pr[0])}, "i": map[string]any{"$replace": mkref(pr[1])}, "j": map[string]any{"$merge": mkref(pr[0]), "z": 1}}
			second := "second"
			if core.Equal(pr[0], pr[1]) {
				second = "first"
			}
			inl := map[string]any{"id": 9, "h": map[string]any{"who": "first"}, "i": map[string]any{"who": second}, "j": map[string]any{"who": "first", "z": 1}}
			kind := fmt.Sprintf("cross two-references-in-one-document %s/%s form%d", core.Canon(pr[0]), core.Canon(pr[1]), fi)
			out = append(out, c10Case{Kind: kind, Docs: []any{da, db, host}, Inlined: []any{da, db, inl}})
			out = append(out, c10Case{Kind: kind + " host-first", Docs: []any{host, da, db}, Inlined: []any{inl, da, db}})
		}
	}
	// whole-document reference and a self-matching host
	out = append(out, c10Case{Kind: "cross whole-document", Docs: []any{mk(1, base), map[string]any{"id": 9, "h": map[string]any{"$replace": map[string]any{"$match": map[string]any{"id": 1}}}}},
		Inlined: []any{mk(1, base), map[string]any{"id": 9, "h": mk(1, base)}}})
	out = append(out, c10Case{Kind: "cross host-matches-too", Docs: []any{mk(1, base), map[string]any{"id": 1, "h": map[string]any{"$replace": map[string]any{"$match": map[string]any{"id": 1}, "$path": "id"}}}}, MustErr: true})
	out = append(out, c10Case{Kind: "cross missing-$match", Docs: []any{mk(1, base), map[string]any{"id": 9, "h": map[string]any{"$replace": map[string]any{"$path": "id"}}}}, MustErr: true})
	return out
}

func c10Run(c *core.Ctx, cs c10Case) {
	c.Eval()
	c.Trans(len(cs.Docs) + 1)
	got, gerr := evalStream(cs.Docs)
	wit := cs.Kind + ": " + core.Canon(cs.Docs)
	c.Validated()
	c.Nontrivial()
	if cs.MustErr {
		if gerr == nil {
			c.Outcome("BAD-REFERENCE-ACCEPTED")
			c.Fail("reference-errors", "accepted", wit, map[string]any{"output": got})
			return
		}
		c.Outcome("error-as-required")
		return
	}
	c.Trans(len(cs.Inlined) + 1)
	want, werr := evalStream(cs.Inlined)
	if (gerr == nil) != (werr == nil) {
		c.Outcome("STATUS-DIFFERS")
		c.Fail("as-if-inlined", "status-differs", wit, map[string]any{"referencing_error": errStr(gerr), "inlined_error": errStr(werr), "inlined": cs.Inlined, "referencing_output": got, "inlined_output": want})
		return
	}
	if gerr != nil {
		c.Outcome("both-fail")
		return
	}
	c.State(core.Canon(got))
	if !core.Equal(got, want) {
		c.Outcome("OUTPUT-DIFFERS")
		c.Fail("as-if-inlined", "output-differs", wit, map[string]any{"got": got, "want": want, "inlined": cs.Inlined})
		return
	}
	c.Outcome("equal")
}

func buildC10(tier string) *core.Plan {
	n := 4
	if tier == "thorough" {
		n = 5
	}
	a := gen.Alphabet{Scalars: []any{1, "x"}, Keys: []string{"a", "b", "c.d"}, MaxList: 2, MaxMap: 2}
	var bases []map[string]any
	for _, t := range gen.Trees(a, n) {
		if m, ok := t.(map[string]any); ok && len(m) > 0 {
			bases = append(bases, m)
		}
	}
	// targets of other kinds: null, false, zero, the empty string, a negative float
	bases = append(bases,
		map[string]any{"a": nil, "b": 1},
		map[string]any{"a": map[string]any{"b": nil, "c.d": 1}},
		map[string]any{"a": false, "b": 0},
		map[string]any{"a": "", "b": -1.5},
		map[string]any{"a": map[string]any{"b": false}, "b": []any{nil, 0}},
		// keys holding the characters the string forms are made of
		map[string]any{"x:y": map[string]any{"v": 1}, "x": map[string]any{"v": 2}},
		map[string]any{"a b": 1, "a": map[string]any{"b c": []any{1}, "$$d": 2}})
	// templates under $output: false as reference targets
	hiddenBases := []map[string]any{
		{"tmpl": map[string]any{"$output": false, "x": 1, "y": map[string]any{"z": 2}}, "k": 1},
		{"tmpl": map[string]any{"$output": false, "x": []any{1, 2}}, "l": []any{0}},
		{"a": map[string]any{"tmpl": map[string]any{"$output": false, "x": "v"}}},
	}
	single := core.Space{Name: "same-document", N: int64(len(bases)), Chunk: 2,
		Desc: func(i int64) any {
			return map[string]any{"base": bases[i], "cases": "every target x every host position x every reference form; chains; dangling"}
		},
		Run: func(c *core.Ctx, i int64) {
			for _, cs := range c10Cases(bases[i], true) {
				c10Run(c, cs)
				c.NontrivialSub()
			}
		}}
	hidden := core.Space{Name: "hidden-templates", N: int64(len(hiddenBases)), Chunk: 1,
		Desc: func(i int64) any { return hiddenBases[i] },
		Run: func(c *core.Ctx, i int64) {
			for _, cs := range c10Cases(hiddenBases[i], true) {
				c10Run(c, cs)
				c.NontrivialSub()
			}
		}}
	var crossBases []map[string]any
	for _, b := range bases {
		if core.Size(b) <= n-1 {
			crossBases = append(crossBases, b)
		}
	}
	cross := core.Space{Name: "cross-document", N: int64(len(crossBases)), Chunk: 4,
		Desc: func(i int64) any {
			return map[string]any{"base": crossBases[i], "cases": "{$match,$path} and [pattern, path...] forms; one, zero and two matching documents"}
		},
		Run: func(c *core.Ctx, i int64) {
			for _, cs := range c10Cross(crossBases[i]) {
				c10Run(c, cs)
				c.NontrivialSub()
			}
		}}
	return &core.Plan{
		Spaces: []core.Space{single, hidden, cross},
		Rule: "for every map-rooted base tree up to N nodes over keys {a, b, c.d}: every map-addressable node as target x every non-overlapping host (new key in every map, existing leaf/map/list) x every reference form and path spelling, " +
			"chains of two references in both processing orders, dangling paths, cross-document forms with 0/1/2 matching documents; distinct by construction",
		Assumptions: []string{"differential oracle: eval(referencing stream) must equal eval(hand-inlined stream), error iff error; the inlined $merge value is computed with the real layering API on copies (local content as parent, referenced value as child)",
			"targets are addressed through map keys only (list indices are not addressable in bkl paths); root targets are C08's business (cycles)"},
		Bounds: map[string]any{"base_nodes": n, "bases": len(bases)},
	}
}
