package checks

import (
	"fmt"
	"os"
	"path/filepath"
	"sort"
	"strings"

	"verif/core"
	"verif/ref"
)

// C03 — inheritance chain is resolved from filenames and $parent, base first.

func init() {
	core.Register(&core.Check{ID: "C03", Title: "inheritance chain resolution", Build: buildC03})
}

type c03File struct {
	Name    string `json:"name"` // layer name without extension, e.g. "a.b"
	Ext     string `json:"ext"`
	Docs    []any  `json:"docs,omitempty"`
	LinkTo  string `json:"link_to,omitempty"` // file name (with ext) this symlink points to
	AbsLink bool   `json:"abs_link,omitempty"`
	// Dir places the file in a sibling directory Dir/ of the layer directory (links then point to
	// ../LinkTo). Such a directory is never searched for layers: a link's parents come from the
	// directory and name of its target.
	Dir string `json:"dir,omitempty"`
}

func (f c03File) file() string {
	if f.Dir != "" {
		return f.Dir + "/" + f.Name + "." + f.Ext
	}
	return f.Name + "." + f.Ext
}

type c03Layout struct {
	Files  []c03File `json:"files"`
	Args   []string  `json:"args"` // CLI arguments after `-f json`
	Note   string    `json:"note"`
	Subdir string    `json:"subdir,omitempty"` // files live in this sub-directory; bkl is invoked from its parent
}

func (l c03Layout) clone() c03Layout {
	n := c03Layout{Args: append([]string{}, l.Args...), Note: l.Note, Subdir: l.Subdir}
	for _, f := range l.Files {
		g := f
		g.Docs = core.Clone(f.Docs).([]any)
		n.Files = append(n.Files, g)
	}
	return n
}

var c03Exts = map[string]bool{"json": true, "jsonl": true, "json-pretty": true, "toml": true, "yaml": true, "yml": true}

func c03Tag(name string) string { return strings.ReplaceAll(name, ".", "_") }

func c03Doc(name string) map[string]any {
	return map[string]any{"order": []any{name}, "k_" + c03Tag(name): 1}
}

func c03Chain(names ...string) c03Layout {
	l := c03Layout{Note: "chain " + strings.Join(names, "<")}
	for _, n := range names {
		l.Files = append(l.Files, c03File{Name: n, Ext: "yaml", Docs: []any{c03Doc(n)}})
	}
	l.Args = []string{names[len(names)-1] + ".yaml"}
	return l
}

// c03Wild: an entry file whose $parent is a wildcard over three part layers (and a plain layer q):
// the parts are applied in the order of their file names, whatever their extensions.
func c03Wild(parent any) c03Layout {
	l := c03Layout{Note: "wildcard " + core.Canon(parent)}
	for _, n := range []string{"p-a", "p-b", "p-c", "q"} {
		l.Files = append(l.Files, c03File{Name: n, Ext: "yaml", Docs: []any{c03Doc(n)}})
	}
	top := c03Doc("top")
	top["$parent"] = parent
	l.Files = append(l.Files, c03File{Name: "top", Ext: "yaml", Docs: []any{top}})
	l.Args = []string{"top.yaml"}
	return l
}

// ---------------------------------------------------------------- model

type c03Model struct {
	files map[string]*c03File // by file name with ext
	n     int
	why   string
}

type c03Inst struct {
	path  string // file name as loaded (may be a link)
	rpath string // after symlink resolution, for the filename rule
	docs  []*ref.Doc
	raw   []any
	child *c03Inst
}

var errC03Unspec = fmt.Errorf("unspecified")

func (m *c03Model) real(name string) (*c03File, string, error) {
	// follow symlinks (relative to the same directory)
	seen := 0
	for {
		f, ok := m.files[name]
		if !ok {
			return nil, "", fmt.Errorf("missing file %s", name)
		}
		if f.LinkTo == "" {
			return f, name, nil
		}
		if f.AbsLink {
			// os.Root refuses absolute symlinks even inside the root; the
			// statement does not say whether they must work
			return nil, "", errC03Unspec
		}
		name = f.LinkTo
		seen++
		if seen > 10 {
			return nil, "", fmt.Errorf("link loop")
		}
	}
}

func (m *c03Model) findLayer(layer string) string {
	var hits []string
	for fn := range m.files {
		e := fn[strings.LastIndex(fn, ".")+1:]
		if c03Exts[e] && strings.TrimSuffix(fn, "."+e) == layer {
			hits = append(hits, fn)
		}
	}
	if len(hits) != 1 {
		return ""
	}
	return hits[0]
}

func (m *c03Model) load(name string, child *c03Inst) (*c03Inst, error) {
	e := name[strings.LastIndex(name, ".")+1:]
	if !c03Exts[e] {
		return nil, fmt.Errorf("unsupported extension %s", e)
	}
	f, rname, err := m.real(name)
	if err != nil {
		return nil, err
	}
	inst := &c03Inst{path: name, rpath: rname, child: child}
	for _, d := range f.Docs {
		m.n++
		inst.raw = append(inst.raw, core.Clone(d))
		inst.docs = append(inst.docs, &ref.Doc{ID: fmt.Sprintf("m%d", m.n)})
	}
	if child != nil {
		for _, cd := range child.docs {
			cd.Parents = append(cd.Parents, inst.docs...)
		}
	}
	return inst, nil
}

// parents pops $parent from the instance's documents and resolves the parent files.
func (m *c03Model) parents(inst *c03Inst) ([]string, error) {
	var names []string
	noParent := false
	for i, d := range inst.raw {
		dm, ok := d.(map[string]any)
		if !ok {
			continue
		}
		v, has := dm["$parent"]
		if !has {
			continue
		}
		nd := map[string]any{}
		for k, c := range dm {
			if k != "$parent" {
				nd[k] = c
			}
		}
		inst.raw[i] = nd
		switch x := v.(type) {
		case string:
			names = append(names, x)
		case []any:
			for _, e := range x {
				s, ok := e.(string)
				if !ok {
					return nil, fmt.Errorf("$parent list with non-string")
				}
				names = append(names, s)
			}
		case bool:
			if x {
				return nil, fmt.Errorf("$parent: true")
			}
			noParent = true
		case nil:
			noParent = true
		default:
			return nil, errC03Unspec
		}
	}
	if noParent {
		if len(names) > 0 {
			return nil, fmt.Errorf("$parent false and string in the same file")
		}
		return nil, nil
	}
	if len(names) > 0 {
		if strings.Contains(inst.path, "/") {
			// a $parent directive read through a link in another directory: the statement fixes
			// only the filename rule for links ("inherits from its target's name"), not which
			// directory a directive's relative names are looked up in
			return nil, errC03Unspec
		}
		var out []string
		dupCheck := map[string]bool{}
		for _, s := range names {
			if dupCheck[s] {
				// the same parent named twice by one file: its documents get identical ids; degenerate
				return nil, errC03Unspec
			}
			dupCheck[s] = true
			if strings.Contains(s, "/") {
				return nil, errC03Unspec
			}
			var hits []string
			for fn := range m.files {
				e := fn[strings.LastIndex(fn, ".")+1:]
				if !c03Exts[e] {
					continue
				}
				if c03GlobMatch(s+".*", fn) && strings.Count(fn, ".") == strings.Count(s, ".")+1 {
					hits = append(hits, fn)
				}
			}
			if len(hits) == 0 {
				return nil, fmt.Errorf("missing parent %s", s)
			}
			sort.Strings(hits)
			out = append(out, hits...)
		}
		seen := map[string]bool{}
		for _, h := range out {
			if seen[h] {
				return nil, errC03Unspec
			}
			seen[h] = true
		}
		return out, nil
	}
	// symlink: the target's name decides; otherwise the file's own name
	base := inst.rpath
	parts := strings.Split(base, ".")
	if len(parts) < 2 {
		return nil, fmt.Errorf("invalid filename")
	}
	if len(parts) == 2 {
		return nil, nil
	}
	// the format extension may itself contain no dot; json-pretty has none either
	layer := strings.Join(parts[:len(parts)-2], ".")
	fn := m.findLayer(layer)
	if fn == "" {
		return nil, fmt.Errorf("missing layer %s", layer)
	}
	return []string{fn}, nil
}

// c03GlobMatch: '*' matches any run of characters (no '/' occurs here).
func c03GlobMatch(pat, s string) bool {
	ok, _ := filepath.Match(pat, s)
	return ok
}

func (m *c03Model) resolve(name string, child *c03Inst) ([]*c03Inst, error) {
	for c := child; c != nil; c = c.child {
		if c.path == name || c.rpath == name {
			return nil, fmt.Errorf("$parent cycle")
		}
	}
	inst, err := m.load(name, child)
	if err != nil {
		return nil, err
	}
	ps, err := m.parents(inst)
	if err != nil {
		return nil, err
	}
	var out []*c03Inst
	for _, p := range ps {
		sub, err := m.resolve(p, inst)
		if err != nil {
			return nil, err
		}
		out = append(out, sub...)
	}
	return append(out, inst), nil
}

// c03Expect runs the model for a whole command line: verdict, expected output documents.
func c03Expect(l c03Layout) (ref.Verdict, []any, string) {
	m := &c03Model{files: map[string]*c03File{}}
	for i := range l.Files {
		m.files[l.Files[i].file()] = &l.Files[i]
	}
	skipParents := false
	var inputs []string
	for _, a := range l.Args {
		if a == "-P" {
			skipParents = true
		} else {
			inputs = append(inputs, a)
		}
	}
	s := &ref.Stream{}
	for _, in := range inputs {
		e := in[strings.LastIndex(in, ".")+1:]
		if !c03Exts[e] {
			return ref.Reject, nil, "unsupported extension"
		}
		fn := m.findLayer(strings.TrimSuffix(in, "."+e))
		if fn == "" {
			return ref.Reject, nil, "missing input " + in
		}
		var insts []*c03Inst
		if skipParents {
			inst, err := m.load(fn, nil)
			if err == errC03Unspec {
				return ref.Unspec, nil, "absolute symlink"
			}
			if err != nil {
				return ref.Reject, nil, err.Error()
			}
			for i, d := range inst.raw {
				if dm, ok := d.(map[string]any); ok {
					nd := map[string]any{}
					for k, c := range dm {
						if k != "$parent" {
							nd[k] = c
						}
					}
					inst.raw[i] = nd
				}
			}
			insts = []*c03Inst{inst}
		} else {
			var err error
			insts, err = m.resolve(fn, nil)
			if err == errC03Unspec {
				return ref.Unspec, nil, "unspecified $parent value"
			}
			if err != nil {
				return ref.Reject, nil, err.Error()
			}
		}
		for _, inst := range insts {
			for i, d := range inst.docs {
				d.Data = inst.raw[i]
				res, _ := s.MergeDocument(d)
				if res.V != ref.Accept {
					return res.V, nil, "merge: " + res.Why
				}
			}
		}
	}
	var outs []any
	for _, d := range s.Docs {
		f := ref.Final(d.Data)
		if f.V != ref.Accept {
			return f.V, nil, "final: " + f.Why
		}
		if f.Val != nil {
			outs = append(outs, f.Val)
		}
	}
	return ref.Accept, outs, ""
}

// ---------------------------------------------------------------- layouts

func c03Baselines() []c03Layout {
	extra := func(l c03Layout, names ...string) c03Layout {
		for _, n := range names {
			l.Files = append(l.Files, c03File{Name: n, Ext: "yaml", Docs: []any{c03Doc(n)}})
		}
		return l
	}
	return []c03Layout{
		c03Chain("a"),
		extra(c03Chain("a", "a.b"), "a.c", "q"),
		extra(c03Chain("a", "a.b", "a.b.c"), "a.c", "q", "q.r"),
		extra(c03Chain("a", "a.b", "a.b.c", "a.b.c.d"), "q"),
		extra(c03Chain("q", "q.r"), "a", "a.b"),
		c03Wild("p-*"),
		c03Wild([]any{"p-*", "q"}),
	}
}

func (l *c03Layout) find(name string) *c03File {
	for i := range l.Files {
		if l.Files[i].Name == name && l.Files[i].Dir == "" {
			return &l.Files[i]
		}
	}
	return nil
}

func (l *c03Layout) renameArgs(old, new string) {
	for i, a := range l.Args {
		if a == old {
			l.Args[i] = new
		}
	}
}

// c03Deviations returns every layout one deviation away from l.
func c03Deviations(l c03Layout) []c03Layout {
	var out []c03Layout
	add := func(n c03Layout, note string) {
		n.Note = l.Note + " | " + note
		out = append(out, n)
	}
	entry := ""
	for _, a := range l.Args {
		if a != "-P" {
			entry = a
		}
	}
	for i, f := range l.Files {
		if f.LinkTo != "" || f.Dir != "" {
			continue
		}
		// change one extension
		for _, e := range []string{"yml", "json", "toml", "jsonl", "json-pretty"} {
			if e == f.Ext {
				continue
			}
			n := l.clone()
			n.Files[i].Ext = e
			n.renameArgs(f.file(), n.Files[i].file())
			add(n, "ext "+f.Name+"->"+e)
		}
		// remove one layer
		if f.file() != entry {
			n := l.clone()
			n.Files = append(n.Files[:i], n.Files[i+1:]...)
			add(n, "remove "+f.file())
		}
		// $parent variants on this file
		for vi, v := range []any{false, nil, true, 5, map[string]any{"x": 1}, "q", []any{"q"}, []any{"a", "q"}, "a.*", "q.*", "nope", []any{"q", 5}, "a.b", []any{"q", "nope"}, []any{"nope", "q"}, []any{"q", "zz.*"}} {
			if s, ok := v.(string); ok && (s == f.Name) {
				continue
			}
			n := l.clone()
			d := n.Files[i].Docs[0].(map[string]any)
			d["$parent"] = v
			add(n, fmt.Sprintf("$parent#%d on %s", vi, f.Name))
			// the same directive in a second document of the file
			n2 := l.clone()
			n2.Files[i].Docs = append(n2.Files[i].Docs, map[string]any{"$parent": v, "second_" + c03Tag(f.Name): true})
			add(n2, fmt.Sprintf("$parent#%d in doc1 of %s", vi, f.Name))
		}
		// false and a string in the same file
		n := l.clone()
		n.Files[i].Docs[0].(map[string]any)["$parent"] = false
		n.Files[i].Docs = append(n.Files[i].Docs, map[string]any{"$parent": "q"})
		add(n, "false+string in "+f.Name)
		// express the filename link by $parent on a differently named file
		if strings.Contains(f.Name, ".") {
			parent := f.Name[:strings.LastIndex(f.Name, ".")]
			for _, form := range []any{parent, []any{parent}} {
				n := l.clone()
				n.Files[i].Name = "z" + fmt.Sprint(i)
				n.Files[i].Docs[0].(map[string]any)["$parent"] = form
				n.renameArgs(f.file(), n.Files[i].file())
				// children of the renamed layer lose their filename parent: rename them along
				for j := range n.Files {
					if strings.HasPrefix(n.Files[j].Name, f.Name+".") {
						old := n.Files[j].file()
						n.Files[j].Name = "z" + fmt.Sprint(i) + strings.TrimPrefix(n.Files[j].Name, f.Name)
						n.renameArgs(old, n.Files[j].file())
					}
				}
				add(n, "link "+f.Name+" expressed by $parent")
			}
		}
		// symlinks to this file
		for si, link := range []c03File{
			{Name: "s", Ext: f.Ext, LinkTo: f.file()},
			{Name: "s", Ext: f.Ext, LinkTo: f.file(), AbsLink: true},
			{Name: "x.y", Ext: f.Ext, LinkTo: f.file()},
			{Name: "a.zz", Ext: f.Ext, LinkTo: f.file()},
		} {
			if l.find(link.Name) != nil {
				continue
			}
			n := l.clone()
			n.Files = append(n.Files, link)
			n.Args = []string{link.file()}
			add(n, fmt.Sprintf("symlink#%d to %s as entry", si, f.file()))
			if si == 0 {
				n2 := l.clone()
				n2.Files = append(n2.Files, link, c03File{Name: "s2", Ext: f.Ext, LinkTo: link.file()})
				n2.Args = []string{"s2." + f.Ext}
				add(n2, "chained symlink to "+f.file())
			}
		}
	}
	// a link in another directory that keeps its target's file name, next to a decoy with the name of
	// the target's parent layer: the link inherits from where and what it points to
	for _, f := range l.Files {
		if f.LinkTo != "" || f.Dir != "" || f.file() != entry {
			continue
		}
		haveDir := false
		for _, g := range l.Files {
			if g.Dir != "" {
				haveDir = true
			}
		}
		if haveDir {
			continue
		}
		for _, abs := range []bool{false} {
			n := l.clone()
			n.Files = append(n.Files, c03File{Name: f.Name, Ext: f.Ext, LinkTo: f.file(), Dir: "envs", AbsLink: abs})
			if k := strings.LastIndex(f.Name, "."); k > 0 {
				decoy := f.Name[:k]
				n.Files = append(n.Files, c03File{Name: decoy, Ext: "yaml", Dir: "envs", Docs: []any{map[string]any{"order": []any{"DECOY"}, "decoy": true}}})
			}
			n.Args = []string{"envs/" + f.Name + "." + f.Ext}
			add(n, "same-name symlink to "+f.file()+" from a sibling directory as entry")
		}
	}
	// invoked from another directory: parents are looked up next to the file, not in the working directory
	if l.Subdir == "" {
		for _, sd := range []string{"d", "v1.2.x"} {
			n := l.clone()
			n.Subdir = sd
			add(n, "invoked from the parent of "+sd+"/")
		}
	}
	// command-line deviations
	{
		n := l.clone()
		n.Args = append([]string{"-P"}, n.Args...)
		add(n, "-P")
	}
	for _, e := range []string{"json", "toml", "yml", "ini"} {
		n := l.clone()
		for i, a := range n.Args {
			if a != "-P" {
				n.Args[i] = a[:strings.LastIndex(a, ".")] + "." + e
			}
		}
		add(n, "virtual extension "+e)
	}
	for _, second := range []string{"q", "q.r", "a", "a.c", "missing"} {
		if f := l.find(second); f != nil || second == "missing" {
			n := l.clone()
			name := second + ".yaml"
			if f != nil {
				name = f.file()
			}
			dup := false
			for _, a := range l.Args {
				if a != "-P" && a[:strings.LastIndex(a, ".")] == name[:strings.LastIndex(name, ".")] {
					dup = true // the same input twice is degenerate (identical document ids)
				}
			}
			if dup {
				continue
			}
			n.Args = append(n.Args, name)
			add(n, "second input "+name)
			n2 := l.clone()
			n2.Args = append([]string{name}, n2.Args...)
			add(n2, "first input "+name)
		}
	}
	return out
}

func c03Layouts(depth int, baselines []c03Layout) []c03Layout {
	var all []c03Layout
	frontier := baselines
	all = append(all, frontier...)
	for d := 0; d < depth; d++ {
		var next []c03Layout
		for _, l := range frontier {
			next = append(next, c03Deviations(l)...)
		}
		all = append(all, next...)
		frontier = next
	}
	// drop layouts that violate the driver invariant: a layer name provided by two files
	var out []c03Layout
	for _, l := range all {
		seen := map[string]bool{}
		ok := true
		for _, f := range l.Files {
			if seen[f.Dir+"/"+f.Name] {
				ok = false
			}
			seen[f.Dir+"/"+f.Name] = true
		}
		if ok {
			out = append(out, l)
		}
	}
	return out
}

func c03Materialise(dir string, l c03Layout) error {
	if l.Subdir != "" {
		dir = filepath.Join(dir, l.Subdir)
		if err := os.MkdirAll(dir, 0o755); err != nil {
			return err
		}
	}
	for _, f := range l.Files {
		p := filepath.Join(dir, f.file())
		if f.Dir != "" {
			if err := os.MkdirAll(filepath.Join(dir, f.Dir), 0o755); err != nil {
				return err
			}
		}
		if f.LinkTo != "" {
			t := f.LinkTo
			if f.Dir != "" {
				t = "../" + f.LinkTo
			}
			if f.AbsLink {
				t = filepath.Join(dir, f.LinkTo)
			}
			if err := os.Symlink(t, p); err != nil {
				return err
			}
			continue
		}
		if f.Ext == "toml" && hasNull(f.Docs) {
			return fmt.Errorf("TOML cannot express null")
		}
		wd, wn := dir, f.file()
		if f.Dir != "" {
			wd, wn = filepath.Join(dir, f.Dir), f.Name+"."+f.Ext
		}
		if err := writeDoc(wd, wn, f.Ext, f.Docs...); err != nil {
			return err
		}
	}
	return nil
}

func c03Run(c *core.Ctx, l c03Layout) {
	verdict, want, why := c03Expect(l)
	dir := scratchDir()
	defer os.RemoveAll(dir)
	if err := c03Materialise(dir, l); err != nil {
		// a value TOML cannot express (null $parent): not a valid layout
		c.Outcome("not-materialisable")
		return
	}
	c.Eval()
	c.Trans(1)
	args := []string{"-f", "json"}
	for _, a := range l.Args {
		if a != "-P" && l.Subdir != "" {
			a = l.Subdir + "/" + a
		}
		args = append(args, a)
	}
	so, se, code, err := runTool(dir, "bkl", args...)
	wit := l.Note + " :: " + core.JSON(l)
	if err != nil {
		c.Fail("harness", "cannot-run", wit, err.Error())
		return
	}
	switch verdict {
	case ref.Unspec:
		c.Unspec()
		c.Outcome("unspecified")
		return
	case ref.Reject:
		c.Validated()
		c.Nontrivial()
		if code == 0 {
			c.Outcome("ERROR-SILENTLY-SKIPPED")
			c.Fail("refResolve", "accepted", wit, map[string]any{"model": why, "stdout": so})
			return
		}
		c.Outcome("rejected")
		return
	}
	c.Validated()
	c.Nontrivial()
	if code != 0 {
		c.Outcome("WRONGLY-REJECTED")
		c.Fail("refResolve", "rejected", wit, map[string]any{"stderr": se, "want": want})
		return
	}
	got, perr := parseJSONStream(so)
	if perr != nil {
		c.Fail("refResolve", "unparsable-output", wit, so)
		return
	}
	c.State(core.CanonLoose(got))
	if want == nil {
		want = []any{}
	}
	if !core.EqualLoose(got, want) {
		c.Outcome("WRONG-ORDER-OR-CONTENT")
		c.Fail("refResolve", "wrong-output", wit, map[string]any{"got": got, "want": want})
		return
	}
	c.Outcome("equal")
}

func buildC03(tier string) *core.Plan {
	depth := 1
	if tier == "thorough" {
		depth = 2
	}
	layouts := c03Layouts(depth, c03Baselines())
	if tier != "thorough" {
		// quick: two deviations on the two smallest baselines as well
		layouts = append(layouts, c03Layouts(2, c03Baselines()[:2])...)
	}
	sp := core.Space{Name: fmt.Sprintf("layouts-%d-deviations", depth), N: int64(len(layouts)),
		Desc: func(i int64) any { return layouts[i] },
		Run:  func(c *core.Ctx, i int64) { c03Run(c, layouts[i]) }}
	// $parent written with the escape sequences of the file formats (no literal "$parent" bytes in the file)
	esc := []struct{ ext, text string }{
		{"json", "{\"\\u0024parent\": \"a\", \"y\": 2}\n"},
		{"json", "{\"\\u0024parent\": [\"a\"], \"y\": 2}\n"},
		{"yaml", "\"\\x24parent\": a\ny: 2\n"},
		{"yaml", "? \"\\u0024parent\"\n: a\ny: 2\n"},
		{"toml", "\"\\u0024parent\" = \"a\"\ny = 2\n"},
		{"json", "{\"\\u0024parent\": false, \"y\": 2}\n"},
	}
	escSpace := core.Space{Name: "escaped-$parent-spellings", N: int64(len(esc)), Chunk: 1,
		Desc: func(i int64) any { return esc[i] },
		Run: func(c *core.Ctx, i int64) {
			e := esc[i]
			dir := scratchDir()
			defer os.RemoveAll(dir)
			os.WriteFile(filepath.Join(dir, "a.yaml"), []byte("x: 1\n"), 0o644)
			// q.z.<ext>: by file name it would inherit from q (which does not exist); the directive says a (or nothing)
			os.WriteFile(filepath.Join(dir, "q.z."+e.ext), []byte(e.text), 0o644)
			c.Eval()
			c.Trans(1)
			so, se, code, err := runTool(dir, "bkl", "-f", "json", "q.z."+e.ext)
			wit := "escaped $parent in ." + e.ext + ": " + strings.TrimSpace(e.text)
			if err != nil {
				return
			}
			c.Validated()
			c.Nontrivial()
			want := `[{"x":1,"y":2}]`
			if strings.Contains(e.text, "false") {
				want = `[{"y":2}]`
			}
			got, perr := parseJSONStream(so)
			if code != 0 || perr != nil || core.CanonLoose(got) != want {
				c.Outcome("ESCAPED-PARENT-NOT-HONOURED")
				c.Fail("refResolve", "wrong-output", wit, map[string]any{"exit": code, "stdout": so, "stderr": se, "want": want})
				return
			}
			c.Outcome("equal")
		}}
	return &core.Plan{
		Spaces: []core.Space{sp, escSpace},
		Rule: "7 baseline directory layouts (filename chains of depth 1-4 with sibling layers; an entry whose $parent is a wildcard over three part layers, alone and in a list) and every layout within <= depth deviations: one file's extension changed (6 formats), one layer removed, 16 $parent values in document 0 or 1 of any file, false+string, " +
			"a filename link re-expressed by $parent on a renamed file, relative/absolute/chained/dotted symlinks as entry, a same-name symlink in a sibling directory (next to a decoy parent layer) as entry, -P, virtual or unsupported extension on the command line, a second input before or after; each run through the real bkl CLI",
		Assumptions: []string{"refResolve + refStream + refMerge give the ordered layer list and the expected documents (each layer appends its name to `order`, so application order is visible); $parent values of other types (numbers, maps) are not judged",
			"every layer name is provided by exactly one file; output files are never placed next to inputs"},
		Bounds: map[string]any{"deviations": depth, "layouts": len(layouts)},
	}
}

func hasNull(v any) bool {
	switch x := v.(type) {
	case nil:
		return true
	case map[string]any:
		for _, c := range x {
			if hasNull(c) {
				return true
			}
		}
	case []any:
		for _, c := range x {
			if hasNull(c) {
				return true
			}
		}
	}
	return false
}
