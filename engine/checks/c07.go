package checks

import (
	"encoding/json"
	"fmt"
	"os"
	"path/filepath"
	"strings"

	"verif/core"
	"verif/gen"
	"verif/ref"
)

// C07 — no unresolved $required or stray directive ever reaches the output.

func init() {
	core.Register(&core.Check{ID: "C07", Title: "nothing unresolved reaches the output", Build: buildC07})
}

// string-shaped markers (usable as value, list entry and key)
var c07StrMarkers = []string{"$required", "$delete", "$replace", "$match", "$value", "$invert", "$foo", "$merg", "$output", "$encode", "$repeat:", "$é", "$parent", "$merge", "$path"}

// map-shaped markers (usable as value and list entry)
func c07MapMarkers() []any {
	args := []any{1, true, "x", map[string]any{}, []any{}}
	var out []any
	for _, k := range []string{"$match", "$delete", "$invert", "$output", "$encode", "$repeat", "$decode", "$foo", "$replace", "$value"} {
		for _, a := range args {
			out = append(out, map[string]any{k: a})
			out = append(out, map[string]any{k: a, "extra": 1})
		}
	}
	return out
}

// c07Scan returns the first stray marker found in an output tree.
func c07Scan(v any) string {
	found := ""
	anyString(v, func(s string) bool {
		if found == "" && ref.StrayMarker(s) {
			found = s
		}
		return false
	})
	return found
}

func c07Invariant(c *core.Ctx, oracle, wit string, outs []any, err error) bool {
	if err != nil {
		c.Outcome("error")
		return true
	}
	c.Outcome("success")
	c.State(core.Canon(outs))
	if m := c07Scan(outs); m != "" {
		c.Outcome("MARKER-IN-OUTPUT")
		c.Fail(oracle, "marker-in-output", wit, map[string]any{"marker": m, "output": outs})
		return false
	}
	return true
}

// c07InjectAll returns every document obtained from base by one injection of
// marker m (as map value, as new key's value, as list entry; string markers
// also as key).
func c07InjectAll(base any, m any) []any {
	var out []any
	var paths [][]any
	core.Walk(base, nil, func(p []any, v any) { paths = append(paths, append([]any{}, p...)) })
	for _, p := range paths {
		switch x := getAt(base, p).(type) {
		case map[string]any:
			nm := core.Clone(x).(map[string]any)
			nm["n"] = core.Clone(m)
			out = append(out, setAt(base, p, nm))
			if s, ok := m.(string); ok {
				km := core.Clone(x).(map[string]any)
				km[s] = 1
				out = append(out, setAt(base, p, km))
			}
		case []any:
			out = append(out, setAt(base, p, append(core.Clone(x).([]any), core.Clone(m))))
		default:
			if len(p) > 0 {
				out = append(out, setAt(base, p, core.Clone(m)))
			}
		}
	}
	return out
}

func buildC07(tier string) *core.Plan {
	nb := 4
	if tier == "thorough" {
		nb = 5
	}
	bases := gen.Filter(gen.Trees(gen.Alphabet{Scalars: []any{1, "x"}, Keys: []string{"a", "b"}, MaxList: 2, MaxMap: 2}, nb),
		func(v any) bool { return gen.IsMap(v) || gen.IsList(v) })
	var markers []any
	for _, s := range c07StrMarkers {
		markers = append(markers, s)
	}
	markers = append(markers, c07MapMarkers()...)
	// cases are addressed lazily: (base, marker, injection point) from prefix sums, so that a
	// worker never holds the millions of injected documents of the thorough tier in memory
	type cs struct {
		doc    any
		marker any
	}
	nStrM := len(c07StrMarkers)
	nMapM := len(markers) - nStrM
	prefix := make([]int64, len(bases)+1)
	perStr := make([]int, len(bases))
	perMap := make([]int, len(bases))
	for bi, b := range bases {
		perStr[bi] = len(c07InjectAll(b, "$required"))
		perMap[bi] = len(c07InjectAll(b, map[string]any{"$x": 1}))
		prefix[bi+1] = prefix[bi] + int64(nStrM*perStr[bi]+nMapM*perMap[bi])
	}
	caseAt := func(i int64) cs {
		lo, hi := 0, len(bases)
		for lo+1 < hi {
			mid := (lo + hi) / 2
			if prefix[mid] <= i {
				lo = mid
			} else {
				hi = mid
			}
		}
		bi := lo
		j := int(i - prefix[bi])
		var m any
		var k int
		if j < nStrM*perStr[bi] {
			m, k = markers[j/perStr[bi]], j%perStr[bi]
		} else {
			j -= nStrM * perStr[bi]
			m, k = markers[nStrM+j/perMap[bi]], j%perMap[bi]
		}
		return cs{c07InjectAll(bases[bi], m)[k], m}
	}
	nCases := prefix[len(bases)]

	inject := core.Space{Name: "marker-injection-contexts", N: nCases,
		Desc: func(i int64) any { x := caseAt(i); return map[string]any{"doc": x.doc, "marker": x.marker} },
		Run: func(c *core.Ctx, i int64) {
			x := caseAt(i)
			d, m := x.doc, x.marker
			w := core.Canon(d)
			c.Nontrivial()
			// plain
			c.Eval()
			c.Trans(2)
			outs, err := evalTree(d)
			c.Validated()
			if !c07Invariant(c, "no-stray-marker", w, outs, err) {
				return
			}
			if s, ok := m.(string); ok && s == "$required" && err == nil {
				// a visible $required with nothing above it must be refused
				if core.Canon(d) != "" && c07HasValue(d, "$required") {
					c.Outcome("REQUIRED-ACCEPTED")
					c.Fail("required-is-refused", "required-accepted", w, map[string]any{"output": outs})
					return
				}
			}
			// under $output: false next to a visible sibling
			hid := map[string]any{"h": map[string]any{"$output": false, "v": d}, "k": 1}
			c.Eval()
			c.Trans(2)
			outs, err = evalTree(hid)
			selects := false // a nested $output: true legitimately re-selects hidden content
			core.Walk(d, nil, func(p []any, x any) {
				if mm, ok := x.(map[string]any); ok {
					if b, ok := mm["$output"].(bool); ok && b {
						selects = true
					}
				}
			})
			if c07Invariant(c, "no-stray-marker-hidden", "hidden: "+w, outs, err) && err == nil && !selects {
				if !core.Equal(outs, []any{map[string]any{"k": 1}}) {
					c.Outcome("HIDDEN-LEAKS")
					c.Fail("hidden-is-absent", "hidden-content-visible", "hidden: "+w, map[string]any{"output": outs})
					return
				}
			}
			// selected again below a hidden parent: emitted as its own output, so it must be validated
			resel := map[string]any{"h": map[string]any{"$output": false, "s": map[string]any{"$output": true, "v": d}}, "k": 1}
			c.Eval()
			c.Trans(2)
			outs, err = evalTree(resel)
			if !c07Invariant(c, "no-stray-marker-reselected", "reselected: "+w, outs, err) {
				return
			}
			if s, ok := m.(string); ok && s == "$required" && err == nil && c07HasValue(d, "$required") {
				c.Outcome("REQUIRED-ACCEPTED")
				c.Fail("required-is-refused", "required-accepted-in-reselected-subtree", "reselected: "+w, map[string]any{"output": outs})
				return
			}
			// inside an $encode: json subtree: the encoded text must be clean too
			enc := map[string]any{"e": map[string]any{"$encode": "json", "v": d}}
			c.Eval()
			c.Trans(2)
			outs, err = evalTree(enc)
			if err == nil && c07HasValue(d, "$required") {
				if s, ok := m.(string); ok && s == "$required" {
					c.Outcome("REQUIRED-ACCEPTED")
					c.Fail("required-is-refused", "required-hidden-by-encode", "encode: "+w, map[string]any{"output": outs})
					return
				}
			}
			if c07Invariant(c, "no-stray-marker-encode", "encode: "+w, outs, err) && err == nil && len(outs) == 1 {
				if mm, ok := outs[0].(map[string]any); ok {
					if s, ok := mm["e"].(string); ok {
						var dec any
						if json.Unmarshal([]byte(s), &dec) == nil {
							if mk := c07Scan(dec); mk != "" {
								c.Outcome("MARKER-IN-ENCODED-TEXT")
								c.Fail("no-stray-marker-encode", "marker-in-encoded-text", "encode: "+w, map[string]any{"marker": mk, "encoded": s})
								return
							}
						}
					}
				}
			}
			// the list form of $encode, with transforms that would hide a marker in the encoded text
			for _, tr := range []any{"json", []any{"json", "base64"}} {
				lenc := map[string]any{"e": []any{core.Clone(d), map[string]any{"$encode": tr}}}
				c.Eval()
				c.Trans(2)
				outs, err = evalTree(lenc)
				if !c07Invariant(c, "no-stray-marker-encode-list", "encode-list: "+w, outs, err) {
					return
				}
				if err == nil && c07HasValue(d, "$required") {
					if s, ok := m.(string); ok && s == "$required" {
						c.Outcome("REQUIRED-ACCEPTED")
						c.Fail("required-is-refused", "required-hidden-by-encode", "encode-list: "+w, map[string]any{"output": outs})
						return
					}
				}
				if err == nil && tr == "json" && len(outs) == 1 {
					if mm, ok := outs[0].(map[string]any); ok {
						if s, ok := mm["e"].(string); ok {
							var dec any
							if json.Unmarshal([]byte(s), &dec) == nil {
								if mk := c07Scan(dec); mk != "" {
									c.Outcome("MARKER-IN-ENCODED-TEXT")
									c.Fail("no-stray-marker-encode-list", "marker-in-encoded-text", "encode-list: "+w, map[string]any{"marker": mk, "encoded": s})
									return
								}
							}
						}
					}
				}
			}
			// as the lower layer under an upper layer that mentions something else
			c.Eval()
			c.Trans(3)
			p, err := layerAPI(d, c07Other(d))
			if err == nil {
				outs, err = p.OutputDocuments()
				c07Invariant(c, "no-stray-marker-layered", "lower: "+w, outs, err)
			}
		}}

	// $required chains: satisfied only by an upper layer that actually overrides it
	reqBases := gen.Filter(gen.Trees(gen.Alphabet{Scalars: []any{1, "x", "$required"}, Keys: []string{"a", "b"}, MaxList: 2, MaxMap: 2}, nb+1),
		func(v any) bool { return (gen.IsMap(v) || gen.IsList(v)) && c07HasValue(v, "$required") })
	required := core.Space{Name: "required-chains", N: int64(len(reqBases)),
		Desc: func(i int64) any {
			return map[string]any{"lower": reqBases[i], "uppers": "every subset of the $required map-value positions overridden with 7"}
		},
		Run: func(c *core.Ctx, i int64) {
			lower := reqBases[i]
			var pos [][]any // $required positions reachable through maps only
			var listPos int
			core.Walk(lower, nil, func(p []any, v any) {
				if s, ok := v.(string); ok && s == "$required" {
					mapsOnly := true
					for _, e := range p {
						if _, isIdx := e.(int); isIdx {
							mapsOnly = false
						}
					}
					if mapsOnly {
						pos = append(pos, append([]any{}, p...))
					} else {
						listPos++
					}
				}
			})
			// an upper layer that is an empty document mentions nothing, so it satisfies nothing
			{
				c.Eval()
				c.Trans(3)
				c.NontrivialSub()
				w := core.Canon(lower) + " <- (empty document)"
				p, err := layerAPI(lower, nil)
				if err == nil {
					outs, oerr := p.OutputDocuments()
					c.Validated()
					if oerr == nil {
						c.Outcome("REQUIRED-NOT-ENFORCED")
						c.Fail("required-chain", "empty-upper-layer-satisfies-required", w, map[string]any{"output": outs})
						return
					}
				}
				c.Outcome("unsatisfied-refused")
			}
			if gen.IsList(lower) {
				return // list-rooted lower layers: only the empty-upper-document case applies
			}
			for mask := 0; mask < 1<<len(pos); mask++ {
				upper := map[string]any{}
				want := core.Clone(lower)
				for k, p := range pos {
					if mask&(1<<k) != 0 {
						c07SetPath(upper, p, 7)
						want = setAt(want, p, 7)
					}
				}
				if mask == 0 {
					upper["zz"] = 1
					want.(map[string]any)["zz"] = 1
				}
				c.Eval()
				c.Trans(3)
				c.NontrivialSub()
				w := core.Canon(lower) + " <- " + core.Canon(upper)
				p, err := layerAPI(lower, upper)
				if err != nil {
					c.Fail("required-chain", "merge-error", w, errStr(err))
					return
				}
				outs, err := p.OutputDocuments()
				c.Validated()
				satisfied := mask == (1<<len(pos))-1 && listPos == 0
				if !satisfied {
					if err == nil {
						c.Outcome("REQUIRED-NOT-ENFORCED")
						c.Fail("required-chain", "unsatisfied-required-accepted", w, map[string]any{"output": outs})
						return
					}
					c.Outcome("unsatisfied-refused")
					continue
				}
				if err != nil {
					c.Outcome("SATISFIED-REFUSED")
					c.Fail("required-chain", "satisfied-required-refused", w, errStr(err))
					return
				}
				if !core.Equal(outs, []any{want}) {
					c.Outcome("WRONG-OUTPUT")
					c.Fail("required-chain", "wrong-output", w, map[string]any{"got": outs, "want": want})
					return
				}
				c.Outcome("satisfied-accepted")
			}
		}}

	// multi-document streams: a $required brought into several documents by one layer is satisfied per document
	type mdCase struct {
		name   string
		middle map[string]any
		over   func(id int) map[string]any
	}
	mdCases := []mdCase{
		{"map-over-scalar", map[string]any{"$match": map[string]any{}, "s": map[string]any{"n": "$required", "k": 1}},
			func(id int) map[string]any {
				return map[string]any{"$match": map[string]any{"id": id}, "s": map[string]any{"n": 7}}
			}},
		{"appended-list-entry", map[string]any{"$match": map[string]any{}, "l": []any{map[string]any{"n": "$required", "k": 1}}},
			func(id int) map[string]any {
				return map[string]any{"$match": map[string]any{"id": id}, "l": []any{map[string]any{"$match": map[string]any{"k": 1}, "n": 7}}}
			}},
		{"new-key", map[string]any{"$match": map[string]any{}, "fresh": map[string]any{"n": "$required"}},
			func(id int) map[string]any {
				return map[string]any{"$match": map[string]any{"id": id}, "fresh": map[string]any{"n": 7}}
			}},
		{"replace-true", map[string]any{"$match": map[string]any{}, "m": map[string]any{"$replace": true, "n": "$required"}},
			func(id int) map[string]any {
				return map[string]any{"$match": map[string]any{"id": id}, "m": map[string]any{"n": 7}}
			}},
	}
	multiDoc := core.Space{Name: "required-across-documents", N: int64(len(mdCases) * 4), Chunk: 1,
		Desc: func(i int64) any {
			return map[string]any{"case": mdCases[i/4].name, "overridden_documents_mask": i % 4}
		},
		Run: func(c *core.Ctx, i int64) {
			mc := mdCases[i/4]
			mask := int(i % 4)
			docs := []any{
				map[string]any{"id": 1, "s": 0, "l": []any{0}, "m": map[string]any{"old": 1}},
				map[string]any{"id": 2, "s": 0, "l": []any{0}, "m": map[string]any{"old": 1}},
			}
			p := newParser()
			c.Eval()
			for k, d := range docs {
				if err := p.MergeDocument(newDoc(fmt.Sprintf("b%d", k), d)); err != nil {
					return
				}
			}
			if err := p.MergeDocument(newDoc("mid", mc.middle)); err != nil {
				c.Fail("required-across-documents", "middle-layer-rejected", mc.name, errStr(err))
				return
			}
			for id := 1; id <= 2; id++ {
				if mask&(1<<(id-1)) != 0 {
					if err := p.MergeDocument(newDoc(fmt.Sprintf("o%d", id), mc.over(id))); err != nil {
						c.Fail("required-across-documents", "override-rejected", fmt.Sprintf("%s mask=%d", mc.name, mask), errStr(err))
						return
					}
				}
			}
			c.Trans(6)
			outs, err := p.OutputDocuments()
			c.Validated()
			c.Nontrivial()
			wit := fmt.Sprintf("%s overridden-mask=%d", mc.name, mask)
			if mask != 3 {
				if err == nil {
					c.Outcome("REQUIRED-NOT-ENFORCED")
					c.Fail("required-across-documents", "override-in-one-document-satisfies-another", wit, map[string]any{"output": outs})
					return
				}
				c.Outcome("unsatisfied-refused")
				return
			}
			if err != nil {
				c.Fail("required-across-documents", "satisfied-required-refused", wit, errStr(err))
				return
			}
			c07Invariant(c, "no-stray-marker-multidoc", wit, outs, err)
		}}

	// a marker that is the whole payload: scalar $encode payloads and root-scalar documents
	scalarSpace := core.Space{Name: "scalar-payloads", N: int64(len(c07StrMarkers)), Chunk: 1,
		Desc: func(i int64) any { return c07StrMarkers[i] },
		Run: func(c *core.Ctx, i int64) {
			mk := c07StrMarkers[i]
			docs := []any{
				mk,
				[]any{mk},
				map[string]any{"e": map[string]any{"$encode": "base64", "$value": mk}},
				map[string]any{"e": map[string]any{"$encode": "sha256", "$value": mk}},
				map[string]any{"e": map[string]any{"$encode": []any{"json", "base64"}, "$value": mk}},
				map[string]any{"e": []any{mk, map[string]any{"$encode": "join:,"}}},
				map[string]any{"e": map[string]any{"$encode": "values", "k": mk}},
				map[string]any{"e": map[string]any{"$value": mk}},
				// the marker is not the first element a transform looks at
				map[string]any{"e": []any{"a", mk, map[string]any{"$encode": "join:,"}}},
				map[string]any{"e": []any{"a", "b", mk, map[string]any{"$encode": "join"}}},
				map[string]any{"e": []any{[]any{"a", mk}, map[string]any{"$encode": []any{"flatten", "join:,"}}}},
				map[string]any{"e": []any{"a", mk, map[string]any{"$encode": "prefix:X"}}},
				map[string]any{"e": map[string]any{"$encode": "values", "a": 1, "k": mk}},
				map[string]any{"e": map[string]any{"$encode": "tolist:=", "a": "x", "k": mk}},
				map[string]any{"e": map[string]any{"$encode": "flags", "a": "x", "k": mk}},
				map[string]any{"e": map[string]any{"$encode": []any{"values", "join:,"}, "a": "x", "k": mk}},
				// the marker sits in a hidden place and is pulled into text by interpolation
				map[string]any{"t": map[string]any{"$output": false, "v": mk}, "s": `$"x-{t.v}"`},
				map[string]any{"t": map[string]any{"$output": false, "v": mk}, "k": map[string]any{`$"{t.v}-key"`: 1}},
				map[string]any{"t": map[string]any{"$output": false, "v": mk, "w": "ok"}, "s": `$"{t.w}{t.v}"`},
				map[string]any{"t": map[string]any{"$output": false, "v": []any{"a", mk}}, "s": `$"x-{t.v}"`},
				map[string]any{"t": map[string]any{"$output": false, "v": map[string]any{"k": mk}}, "s": `$"x-{t.v}"`},
			}
			for _, d := range docs {
				c.Eval()
				c.Trans(2)
				outs, err := evalTree(d)
				c.Validated()
				c.NontrivialSub()
				w := "scalar-payload: " + core.Canon(d)
				if !c07Invariant(c, "no-stray-marker-scalar", w, outs, err) {
					return
				}
				// $merge / $replace / $repeat:/... strings are evaluated, the rest must be refused outright
				if err == nil && (mk == "$required" || mk == "$foo" || mk == "$delete" || mk == "$match" || mk == "$invert" || mk == "$merg") {
					c.Outcome("MARKER-ACCEPTED")
					c.Fail("marker-is-refused", "marker-hidden-or-accepted", w, map[string]any{"output": outs})
					return
				}
			}
		}}

	// YAML anchors: a marker behind an anchor that is aliased into a visible place
	yamlMarkers := []string{"$required", "$foo", "$delete", "{$match: 1}", "{$output: x}", "[$replace]"}
	tmpls := []string{
		"t: &t {r: %s}\nuse: *t\n",
		"t: &t\n  $output: false\n  r: %s\nuse:\n  <<: *t\n  $output: true\n",
		"t: &t [%s]\nuse: {l: *t}\n",
		"$output: false\nt: &t {r: %s}\n---\nuse: 1\n",
	}
	yamlSpace := core.Space{Name: "yaml-anchors", N: int64(len(yamlMarkers) * len(tmpls)), Chunk: 2,
		Desc: func(i int64) any { return fmt.Sprintf(tmpls[i%int64(len(tmpls))], yamlMarkers[i/int64(len(tmpls))]) },
		Run: func(c *core.Ctx, i int64) {
			txt := fmt.Sprintf(tmpls[i%int64(len(tmpls))], yamlMarkers[i/int64(len(tmpls))])
			dir := scratchDir()
			defer os.RemoveAll(dir)
			path := filepath.Join(dir, "y.yaml")
			os.WriteFile(path, []byte(txt), 0o644)
			c.Eval()
			c.Trans(2)
			p := newParser()
			err := p.MergeFileLayers(path)
			var outs []any
			if err == nil {
				outs, err = p.OutputDocuments()
			}
			c.Validated()
			c.Nontrivial()
			c07Invariant(c, "no-stray-marker-yaml", txt, outs, err)
		}}

	return &core.Plan{
		Spaces: []core.Space{inject, required, multiDoc, scalarSpace, yamlSpace, c07AfterOutput(), c07EscapedSpellings()},
		Rule: "every single injection of every marker (15 string markers as value/entry/key, 10 directive keys x 5 argument kinds with and without an extra key) into every base tree, " +
			"each evaluated plain, under $output: false, re-selected by $output: true below a hidden parent, inside $encode: json and as a lower layer; every lower layer with $required at any positions x every subset overridden",
		Assumptions: []string{"invariant: a successful output contains no key or string equal to $required or matching ^\\$\\p{Ll} (inputs contain no $$)",
			"definite expectations only where the statement fixes them: visible $required not overridden => error; overridden by a non-null value => success with that value; hidden marker => if success then absent"},
		Bounds: map[string]any{"base_nodes": nb, "bases": len(bases), "markers": len(markers), "injected_docs": nCases, "required_lowers": len(reqBases)},
	}
}

func c07HasValue(v any, s string) bool {
	found := false
	core.Walk(v, nil, func(p []any, x any) {
		if str, ok := x.(string); ok && str == s {
			found = true
		}
	})
	return found
}

func c07Other(d any) any {
	if gen.IsList(d) {
		return []any{"zz"}
	}
	return map[string]any{"zz": 1}
}

func c07SetPath(m map[string]any, p []any, v any) {
	for i, e := range p {
		k := e.(string)
		if i == len(p)-1 {
			m[k] = v
			return
		}
		next, ok := m[k].(map[string]any)
		if !ok {
			next = map[string]any{}
			m[k] = next
		}
		m = next
	}
}

// c07AfterOutput: a marker that arrives AFTER the parser has already produced output once. The
// refusal must not depend on whether an earlier, successful Output call happened: a document that
// takes a value from a hidden template by reference must be refused as soon as that value becomes
// $required (or a stray directive), exactly as on a parser that was never asked for output before.
func c07AfterOutput() core.Space {
	refs := []struct {
		name string
		ref  any
	}{
		{"{$replace: {$match, $path}}", map[string]any{"$replace": map[string]any{"$match": map[string]any{"tid": 1}, "$path": "image"}}},
		{"{$replace: [pattern, path]}", map[string]any{"$replace": []any{map[string]any{"tid": 1}, "image"}}},
		{"{$merge: [pattern, path]} into a map", map[string]any{"$merge": []any{map[string]any{"tid": 1}, "opts"}, "y": 2}},
		{"same-document $merge:path", nil},
	}
	markers := []any{"$required", "$bogus", map[string]any{"$nope": 1}, []any{"$required"}}
	nm := int64(len(markers))
	return core.Space{Name: "marker-arrives-after-an-earlier-output", N: int64(len(refs)) * nm, Chunk: 1,
		Desc: func(i int64) any { return map[string]any{"reference": refs[i/nm].name, "marker": markers[i%nm]} },
		Run: func(c *core.Ctx, i int64) {
			rf, mk := refs[i/nm], markers[i%nm]
			run := func(observeFirst bool) (string, error) {
				p := newParser()
				tmpl := map[string]any{"$output": false, "tid": 1, "image": "nginx", "opts": map[string]any{"image": "nginx"}}
				user := map[string]any{"app": 1, "v": core.Clone(rf.ref)}
				gain := map[string]any{"$match": map[string]any{"tid": 1}, "image": core.Clone(mk), "opts": map[string]any{"image": core.Clone(mk)}}
				if rf.ref == nil {
					// one document: hidden part and user of it side by side
					tmpl = map[string]any{"tid": 1, "t": map[string]any{"$output": false, "image": "nginx"}, "v": "$merge:t.image"}
					user = nil
					gain = map[string]any{"$match": map[string]any{"tid": 1}, "t": map[string]any{"image": core.Clone(mk)}}
				}
				if err := p.MergeDocument(newDoc("t", tmpl)); err != nil {
					return "", err
				}
				if user != nil {
					if err := p.MergeDocument(newDoc("u", user)); err != nil {
						return "", err
					}
				}
				if observeFirst {
					if _, err := p.Output("json"); err != nil {
						return "", fmt.Errorf("first output: %w", err)
					}
					p.OutputDocuments()
				}
				if err := p.MergeDocument(newDoc("g", gain)); err != nil {
					return "MERGE-REFUSED", nil
				}
				b, err := p.Output("json")
				if err != nil {
					return "REFUSED", nil
				}
				return "OUTPUT " + string(b), nil
			}
			c.Eval()
			c.Trans(8)
			fresh, err1 := run(false)
			seen, err2 := run(true)
			wit := fmt.Sprintf("after-output: %s gains %s", rf.name, core.Canon(mk))
			if err1 != nil || err2 != nil {
				c.Fail("harness", "scenario-does-not-load", wit, fmt.Sprint(err1, err2))
				return
			}
			c.Validated()
			c.Nontrivial()
			if strings.HasPrefix(fresh, "OUTPUT") {
				c.Outcome("MARKER-ACCEPTED")
				c.Fail("marker-is-refused", "marker-hidden-or-accepted", wit, map[string]any{"never_observed": fresh})
				return
			}
			if strings.HasPrefix(seen, "OUTPUT") {
				c.Outcome("MARKER-ACCEPTED-AFTER-EARLIER-OUTPUT")
				c.Fail("marker-is-refused", "accepted-because-of-an-earlier-output", wit, map[string]any{"never_observed": fresh, "after_an_earlier_output": seen})
				return
			}
			c.Outcome("refused-either-way")
		}}
}

// c07EscapedSpellings: the marker written with the escape sequences of the file formats (no literal
// dollar byte in the file), through the library and through `bkl -o`: refused, non-zero status.
func c07EscapedSpellings() core.Space {
	cases := []struct{ ext, text string }{
		{"json", "{\"a\": \"\\u0024required\"}\n"},
		{"json", "{\"\\u0024bogus\": 1}\n"},
		{"json", "{\"l\": [1, {\"k\": \"\\u0024required\"}]}\n"},
		{"yaml", "a: \"\\x24required\"\n"},
		{"yaml", "a: \"\\u0024required\"\nb: 1\n"},
		{"yaml", "\"\\x24nope\": 1\n"},
		{"toml", "a = \"\\u0024required\"\n"},
		{"toml", "[t]\nk = \"\\u0024required\"\n"},
		// controls with a literal dollar
		{"json", "{\"a\": \"$required\"}\n"},
		{"yaml", "a: $required\n"},
	}
	return core.Space{Name: "markers-spelt-with-escape-sequences", N: int64(len(cases)), Chunk: 2,
		Desc: func(i int64) any { return cases[i] },
		Run: func(c *core.Ctx, i int64) {
			cs := cases[i]
			dir := scratchDir()
			defer os.RemoveAll(dir)
			in := filepath.Join(dir, "in."+cs.ext)
			os.WriteFile(in, []byte(cs.text), 0o644)
			wit := "escaped spelling in ." + cs.ext + ": " + strings.TrimSpace(cs.text)
			c.Eval()
			c.Trans(3)
			p := newParser()
			err := p.MergeFileLayers(in)
			var outs []any
			if err == nil {
				outs, err = p.OutputDocuments()
			}
			c.Validated()
			c.Nontrivial()
			if err == nil {
				c.Outcome("MARKER-ACCEPTED")
				c.Fail("marker-is-refused", "marker-hidden-or-accepted", wit, map[string]any{"output": outs})
				return
			}
			for _, out := range []string{"o.json", "o.yaml"} {
				so, _, code, rerr := runTool(dir, "bkl", "-o", out, "in."+cs.ext)
				if rerr != nil {
					return
				}
				if code == 0 {
					b, _ := os.ReadFile(filepath.Join(dir, out))
					c.Outcome("MARKER-ACCEPTED-BY-CLI")
					c.Fail("marker-is-refused", "cli-reports-success", wit+" via bkl -o "+out, map[string]any{"stdout": so, "file": string(b)})
					return
				}
			}
			c.Outcome("refused")
		}}
}
