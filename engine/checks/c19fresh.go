package checks

import (
	"bytes"
	"encoding/base64"
	"encoding/json"
	"fmt"
	"os"
	"os/exec"
	"path/filepath"

	"verif/core"
)

// Process-level hidden state: a long-running worker has produced thousands of outputs
// before it reaches a given case, so state that only the FIRST output of a process sees
// (a package-level flag or cache in an encoder) is invisible to it. This space starts a
// fresh process per case (`vmc c19fresh <format> <doc>`): the first output of that
// process, the second, the output of a second parser and the output after an `$encode`
// of the same format must all be the same bytes - and the same bytes the long-running
// worker gets for the same document.

func init() {
	core.ExtraCommands["c19fresh"] = c19FreshMain
}

type c19FreshOut struct {
	Outs []string `json:"outs"` // base64, "ERR: ..." for errors
}

func c19FreshRun(format string, doc any) c19FreshOut {
	var r c19FreshOut
	rec := func(b []byte, err error) {
		if err != nil {
			r.Outs = append(r.Outs, "ERR: "+errClass(err))
			return
		}
		r.Outs = append(r.Outs, base64.StdEncoding.EncodeToString(b))
	}
	a := newParser()
	if err := a.MergeDocument(newDoc("d", core.Clone(doc))); err != nil {
		rec(nil, err)
		return r
	}
	rec(a.Output(format)) // the first output of the process
	rec(a.Output(format))
	b := newParser()
	b.MergeDocument(newDoc("d", core.Clone(doc)))
	rec(b.Output(format))
	e := newParser()
	e.MergeDocument(newDoc("e", map[string]any{"t": map[string]any{"$encode": format, "$value": map[string]any{"k": 1}}}))
	e.Output("json")
	rec(a.Output(format))
	return r
}

func c19FreshMain(args []string) int {
	if len(args) != 2 {
		fmt.Fprintln(os.Stderr, "usage: vmc c19fresh <format> <doc json>")
		return 2
	}
	var doc any
	if err := json.Unmarshal([]byte(args[1]), &doc); err != nil {
		fmt.Fprintln(os.Stderr, err)
		return 2
	}
	b, _ := json.Marshal(c19FreshRun(args[0], normJSON(doc)))
	fmt.Println(string(b))
	return 0
}

// normJSON turns float64 integers from encoding/json back into ints.
func normJSON(v any) any {
	switch x := v.(type) {
	case float64:
		if x == float64(int(x)) {
			return int(x)
		}
		return x
	case map[string]any:
		for k, c := range x {
			x[k] = normJSON(c)
		}
		return x
	case []any:
		for i, c := range x {
			x[i] = normJSON(c)
		}
		return x
	}
	return v
}

var c19FreshFormats = []string{"json", "json-pretty", "jsonl", "yaml", "yml", "toml"}

var c19FreshDocs = []any{
	map[string]any{"a": 1, "b": map[string]any{"c": "x"}},
	map[string]any{"$repeat": 2, "i": "$repeat"},
	map[string]any{"x": map[string]any{"$output": true, "v": 1}, "y": map[string]any{"$output": true, "v": 2}},
	map[string]any{"t": map[string]any{"$encode": "toml", "k": 1}, "y": map[string]any{"$encode": "yaml", "k": 1}, "j": map[string]any{"$encode": "json", "k": 1}},
}

func c19FreshSpace() core.Space {
	nf := int64(len(c19FreshFormats))
	return core.Space{Name: "first-output-of-a-fresh-process", N: nf * int64(len(c19FreshDocs)), Chunk: 1,
		Desc: func(i int64) any { return map[string]any{"format": c19FreshFormats[i%nf], "doc": c19FreshDocs[i/nf]} },
		Run: func(c *core.Ctx, i int64) {
			format, doc := c19FreshFormats[i%nf], c19FreshDocs[i/nf]
			exe, err := os.Executable()
			if err != nil {
				c.Fail("harness", "no-executable", "c19fresh", err.Error())
				return
			}
			dj, _ := json.Marshal(doc)
			cmd := exec.Command(exe, "c19fresh", format, string(dj))
			cmd.Env = os.Environ()
			c.Eval()
			c.Trans(5)
			out, err := cmd.Output()
			wit := fmt.Sprintf("%s of %s", format, dj)
			if err != nil {
				c.Fail("harness", "fresh-process-failed", wit, err.Error())
				return
			}
			var fresh c19FreshOut
			if err := json.Unmarshal(out, &fresh); err != nil {
				c.Fail("harness", "fresh-process-output", wit, string(out))
				return
			}
			here := c19FreshRun(format, doc)
			c.Validated()
			c.Nontrivial()
			names := []string{"first output of the process", "second output, same parser", "output of a second parser", "output after an $encode of the format elsewhere"}
			for k := range fresh.Outs {
				if fresh.Outs[k] != fresh.Outs[0] {
					c.Outcome("OUTPUT-DEPENDS-ON-EARLIER-OUTPUTS")
					c.Fail("fresh-process", "output-differs-from-first-output-of-the-process", wit, map[string]any{"which": names[k], "first": c19b64(fresh.Outs[0]), "this": c19b64(fresh.Outs[k])})
					return
				}
			}
			if len(here.Outs) != len(fresh.Outs) || (len(here.Outs) > 0 && here.Outs[0] != fresh.Outs[0]) {
				c.Outcome("OUTPUT-DEPENDS-ON-PROCESS-HISTORY")
				c.Fail("fresh-process", "long-running-process-differs-from-fresh-process", wit, map[string]any{"fresh": c19b64(fresh.Outs[0]), "long_running": c19b64(here.Outs[0])})
				return
			}
			c.Outcome("fresh-process-agrees")
		}}
}

func c19b64(s string) string {
	if b, err := base64.StdEncoding.DecodeString(s); err == nil {
		return string(b)
	}
	return s
}

// c19OutputCallsSpace: the output entry points on one Parser do not influence each other: a writer
// without a format always gets json-pretty, a file written twice holds exactly the second output,
// and Output(f) returns the same bytes before and after.
func c19OutputCallsSpace() core.Space {
	orders := [][]string{{"yaml", "json"}, {"toml", "json"}, {"json-pretty", "json"}, {"yaml", "toml"}, {"json", "yaml"}}
	return core.Space{Name: "output-entry-points-do-not-influence-each-other", N: int64(len(orders) * len(c19FreshDocs)), Chunk: 1,
		Desc: func(i int64) any {
			return map[string]any{"formats": orders[i%int64(len(orders))], "doc": c19FreshDocs[i/int64(len(orders))]}
		},
		Run: func(c *core.Ctx, i int64) {
			fs, doc := orders[i%int64(len(orders))], c19FreshDocs[i/int64(len(orders))]
			dir := scratchDir()
			defer os.RemoveAll(dir)
			p := newParser()
			if err := p.MergeDocument(newDoc("d", core.Clone(doc))); err != nil {
				return
			}
			c.Eval()
			c.Trans(8)
			wit := fmt.Sprintf("output calls %v on %s", fs, core.Canon(doc))
			first, err := p.Output(fs[0])
			if err != nil {
				return
			}
			pretty, _ := p.Output("json-pretty")
			second, _ := p.Output(fs[1])
			c.Validated()
			c.Nontrivial()
			var w0, w bytes.Buffer
			if err := p.OutputToWriter(&w0, fs[0]); err != nil || w0.String() != string(first) {
				c.Fail("as-if-never-observed", "writer-differs-from-output", wit, map[string]any{"got": w0.String(), "want": string(first)})
				return
			}
			if err := p.OutputToWriter(&w, ""); err != nil || w.String() != string(pretty) {
				c.Fail("as-if-never-observed", "writer-default-depends-on-earlier-calls", wit, map[string]any{"got": w.String(), "want": string(pretty)})
				return
			}
			path := filepath.Join(dir, "out.txt")
			// the longer output first, then the shorter one onto the same path
			a, b := first, second
			fa, fb := fs[0], fs[1]
			if len(a) < len(b) {
				a, b, fa, fb = b, a, fb, fa
			}
			if err := p.OutputToFile(path, fa); err != nil {
				return
			}
			if err := p.OutputToFile(path, fb); err != nil {
				c.Fail("as-if-never-observed", "second-file-output-fails", wit, errStr(err))
				return
			}
			got, _ := os.ReadFile(path)
			if string(got) != string(b) {
				c.Fail("as-if-never-observed", "rewritten-file-differs-from-output", wit, map[string]any{"file": string(got), "want": string(b), "previous": string(a)})
				return
			}
			again, _ := p.Output(fs[0])
			if string(again) != string(first) {
				c.Fail("as-if-never-observed", "output-changes-after-other-output-calls", wit, map[string]any{"first": string(first), "again": string(again)})
				return
			}
			c.Outcome("output-calls-independent")
		}}
}
