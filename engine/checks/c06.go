package checks

import (
	"fmt"
	"os"
	"path/filepath"
	"strings"

	"github.com/gopatchy/bkl"
	"verif/core"
	"verif/gen"
	"verif/ref"
)

// C06 — plain data is identity; $$ escapes any literal dollar.

var c06Tokens = []string{"x", "$", "$$", "$A", "${X}", "$(c)", "$1", "a$b", "$a", "$merge:x", "$replace:x", `$"{a}"`, `$"`,
	"$required", "$delete", "$replace", "$match", "$value", "$invert", "$output", "$env:HOME", "$repeat", "$encode",
	"$decode", "$parent", "$merge", `$"x`}

var c06Plain = []string{"x", "$", "$A", "${X}", "$(c)", "$1", "a$b", `$"x`, `$"{a}`, "$_a", "$-x",
	// directive-shaped text behind leading white space is plain text; a dollar at the very end
	" $env:HOME", "\t$repeat", ` $"{a}"`, " $required", "5$",
	// the character after the dollar is multi-byte
	"$€", "$日本", "$😀x"}

var c06Small = []string{"x", "$", "$$", "$a", "$merge:x", `$"{a}"`, "$required", "$delete", "$replace", "$match", "$output", "$repeat", "$env:HOME"}

func strScalars(ss []string, extra ...any) []any {
	out := []any{}
	for _, s := range ss {
		out = append(out, s)
	}
	return append(out, extra...)
}

func init() {
	core.Register(&core.Check{ID: "C06", Title: "plain data is identity; $$ escapes", Build: buildC06})
}

func buildC06(tier string) *core.Plan {
	nPlain, nFull, nSmall := 4, 3, 0
	if tier == "thorough" {
		nPlain, nFull, nSmall = 5, 3, 4
	}
	plainA := gen.Alphabet{Scalars: strScalars(c06Plain, nil, 1, true, 1.5), Keys: []string{"x", "$A", "a$b", "${X}", `$"x`, "", "$€"}, MaxList: 3, MaxMap: 3}
	fullA := gen.Alphabet{Scalars: strScalars(c06Tokens, nil, 1, true), Keys: c06Tokens, MaxList: 3, MaxMap: 2}
	smallA := gen.Alphabet{Scalars: strScalars(c06Small, nil, 1), Keys: c06Small[:9], MaxList: 3, MaxMap: 3}

	// the large sets are addressed by index (gen.Set), not held in memory
	plainS := gen.NewSet(plainA, nPlain)
	full := gen.Trees(fullA, nFull)
	var smallS *gen.Set
	if nSmall > 0 {
		smallS = gen.NewSet(smallA, nSmall)
	}

	// (1) identity on plain data
	identity := core.Space{Name: "plain-identity", N: plainS.Len(),
		Desc: func(i int64) any { return map[string]any{"doc": plainS.At(i)} },
		Run: func(c *core.Ctx, i int64) {
			d := plainS.At(i)
			c.Eval()
			c.Trans(2)
			p := newParser()
			var outs []any
			err := p.MergeDocument(newDoc("d0", d))
			if err == nil {
				outs, err = p.OutputDocuments()
			}
			c06Expect(c, "identity", d, nil, outs, err, c06Want(d))
			if err == nil {
				c06Bytes(c, "identity", d, nil, p, c06Want(d))
			}
		}}

	escapeRun := func(at func(int64) any) func(c *core.Ctx, i int64) {
		return func(c *core.Ctx, i int64) {
			d := at(i)
			dd := doubleDollar(d)
			c.Eval()
			c.Trans(2)
			p0 := newParser()
			var outs []any
			err := p0.MergeDocument(newDoc("d0", dd))
			if err == nil {
				outs, err = p0.OutputDocuments()
			}
			c06Expect(c, "escape-alone", d, nil, outs, err, c06Want(d))
			if err == nil {
				c06Bytes(c, "escape-alone", d, nil, p0, c06Want(d))
			}
			// layered as the child of several bases
			for _, base := range c06Bases(dd) {
				c.Eval()
				c.Trans(3)
				m := ref.Merge(base, dd)
				if m.V != ref.Accept {
					c.Unspec()
					// still executed: must not panic
					if p, err := layerAPI(base, dd); err == nil {
						p.OutputDocuments()
					}
					continue
				}
				f := ref.Final(m.Val)
				if f.V != ref.Accept {
					c.Fail("harness", "model", "c06-model", fmt.Sprintf("model does not accept doubled data: %s base=%s doc=%s", f.Why, core.JSON(base), core.JSON(dd)))
					continue
				}
				var want []any
				if f.Val != nil {
					want = []any{f.Val}
				}
				p, err := layerAPI(base, dd)
				var outs []any
				if err == nil {
					outs, err = p.OutputDocuments()
				}
				c06Expect(c, "escape-layered", d, base, outs, err, want)
				if err == nil {
					c06Bytes(c, "escape-layered", d, base, p, want)
				}
			}
		}
	}
	escFull := core.Space{Name: "escape-full-alphabet", N: int64(len(full)),
		Desc: func(i int64) any { return map[string]any{"doc": full[i], "doubled": doubleDollar(full[i])} },
		Run:  escapeRun(func(i int64) any { return full[i] })}
	spaces := []core.Space{identity, escFull}
	if nSmall > 0 {
		spaces = append(spaces, core.Space{Name: "escape-reduced-alphabet-deeper", N: smallS.Len(),
			Desc: func(i int64) any { return map[string]any{"doc": smallS.At(i), "doubled": doubleDollar(smallS.At(i))} },
			Run:  escapeRun(smallS.At)})
	}
	// files: JSON documents through MergeFileLayers and a filename chain
	fileSet := gen.Trees(fullA, 2)
	spaces = append(spaces, core.Space{Name: "escape-json-files", N: int64(len(fileSet)),
		Desc: func(i int64) any { return map[string]any{"doc": fileSet[i]} },
		Run: func(c *core.Ctx, i int64) {
			d := fileSet[i]
			dd := doubleDollar(d)
			dir := scratchDir()
			defer os.RemoveAll(dir)
			js, _ := bkl.GetFormat("json")
			b, err := js.MarshalStream([]any{dd})
			if err != nil {
				return
			}
			os.WriteFile(filepath.Join(dir, "a.b.json"), b, 0o644)
			os.WriteFile(filepath.Join(dir, "a.json"), []byte("{}\n"), 0o644)
			if !gen.IsMap(dd) {
				os.WriteFile(filepath.Join(dir, "a.json"), []byte("null\n"), 0o644)
			}
			c.Eval()
			c.Trans(2)
			p := newParser()
			err = p.MergeFileLayers(filepath.Join(dir, "a.b.json"))
			var outs []any
			if err == nil {
				outs, err = p.OutputDocuments()
			}
			c06Expect(c, "escape-files", d, "a.json", outs, err, c06Want(d))
			if err == nil {
				c.Trans(1)
				so, se, code, rerr := runTool(dir, "bkl", "-f", "json", "a.b.json")
				got, perr := parseJSONStream(so)
				if rerr != nil || code != 0 || perr != nil || !core.EqualLoose(got, c06Want(d)) {
					c.Fail("escape-cli", "wrong-cli-output", core.Canon(d), map[string]any{"stdout": so, "stderr": se, "exit": code, "want": c06Want(d)})
				}
			}
		}})

	return &core.Plan{
		Spaces: spaces,
		Rule: "every tree with <= N nodes over the token alphabet (keys and values), enumerated without repetition; non-trivial = the tree contains at least one '$' " +
			"(so escaping or pass-through is actually exercised)",
		Assumptions: []string{"observation through Parser.MergeDocument/OutputDocuments and JSON files; YAML/TOML spellings are covered by C04/C05",
			"child null over an existing value is Unspecified (DESIGN 3.1) and not judged"},
		Bounds: map[string]any{"plain_nodes": nPlain, "full_alphabet_nodes": nFull, "reduced_alphabet_nodes": nSmall, "tokens": c06Tokens},
	}
}

func c06Want(d any) []any {
	if d == nil {
		return []any{}
	}
	return []any{dropNulls(d)}
}

func c06Bases(dd any) []any {
	switch x := dd.(type) {
	case map[string]any:
		bases := []any{map[string]any{}, map[string]any{"zz": 1}}
		keys := core.SortedKeys(x)
		if len(keys) > 0 {
			bases = append(bases, map[string]any{keys[0]: 0, "l": []any{1}})
			bases = append(bases, map[string]any{keys[len(keys)-1]: map[string]any{"q": "$$keep"}})
		}
		return bases
	case []any:
		return []any{[]any{}, []any{0, "$$k"}}
	default:
		return []any{map[string]any{}, nil}
	}
}

// c06Bytes re-observes the same evaluation through Parser.Output (the path the
// CLI and the wrapper use) and compares the decoded bytes with want.
func c06Bytes(c *core.Ctx, oracle string, d, base any, p interface {
	Output(string) ([]byte, error)
}, want []any) {
	wit := core.Canon(d)
	if base != nil {
		wit += " over " + core.Canon(base)
	}
	for _, f := range []string{"json", "yaml"} {
		c.Trans(1)
		b, err := p.Output(f)
		if err != nil {
			c.Fail(oracle+"-bytes", "error", wit, map[string]any{"format": f, "error": errStr(err)})
			return
		}
		var got []any
		var perr error
		if f == "json" {
			got, perr = parseJSONStream(string(b))
		} else if len(want) == 1 {
			var v any
			v, perr = c14ParseText("yaml", string(b))
			got = []any{v}
		} else {
			continue
		}
		if perr != nil || !core.EqualLoose(got, want) {
			c.Fail(oracle+"-bytes", "wrong-output-bytes", wit, map[string]any{"format": f, "bytes": string(b), "want": want})
			return
		}
	}
}

func c06Expect(c *core.Ctx, oracle string, d, base any, outs []any, err error, want []any) {
	if anyString(d, func(s string) bool { return strings.Contains(s, "$") }) {
		c.Nontrivial()
	}
	c.Validated()
	wit := core.Canon(d)
	if base != nil {
		wit += " over " + core.Canon(base)
	}
	if err != nil {
		c.Outcome("rejected")
		c.Fail(oracle, "error", wit, map[string]any{"error": errStr(err), "want": want})
		return
	}
	c.Outcome("accepted")
	c.State(core.Canon(outs))
	if !core.Equal(outs, want) {
		c.Fail(oracle, "wrong-output", wit, map[string]any{"got": outs, "want": want})
	}
}

var scratchN int

// scratchDir makes a private directory for one case under the work dir.
func scratchDir() string {
	scratchN++
	d := filepath.Join(core.WorkDir(), "fs", fmt.Sprintf("w%s-%d-%d", os.Getenv("VMC_WORKER"), os.Getpid(), scratchN))
	os.MkdirAll(d, 0o755)
	return d
}
