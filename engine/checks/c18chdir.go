package checks

import (
	"encoding/json"
	"fmt"
	"os"
	"os/exec"
	"path/filepath"

	"verif/core"
)

// A process that changes its working directory between two evaluations: a relative root or
// layer path names the directory the caller is in NOW. The scenario runs in a process of its
// own (`vmc c18chdir <T> <variant>`) because the working directory is process-wide state.
//
//	T/A/root/in.yaml (v: A)   T/B/root/in.yaml (v: B)
//	chdir(T/A); evaluate root/in.yaml under the root;  chdir(T/B); the same calls again
//
// The second evaluation must yield B's content and must not open anything below T/A.

func init() {
	core.ExtraCommands["c18chdir"] = c18ChdirMain
}

var c18ChdirVariants = []string{"root=. path=in.yaml (from inside root)", "root=root path=root/in.yaml", "root=absolute path=root/in.yaml", "no root, path=root/in.yaml"}

type c18ChdirOut struct {
	First, Second string
	OpenedA       int
}

func c18ChdirEval(variant int) string {
	p := newParser()
	root, path := "", ""
	switch variant {
	case 0:
		if err := os.Chdir("root"); err != nil {
			return "ERR chdir"
		}
		defer os.Chdir("..")
		root, path = ".", "in.yaml"
	case 1:
		root, path = "root", "root/in.yaml"
	case 2:
		wd, _ := os.Getwd()
		root, path = filepath.Join(wd, "root"), "root/in.yaml"
	case 3:
		path = "root/in.yaml"
	}
	if root != "" {
		if err := p.SetRoot(root); err != nil {
			return "ERR setroot " + errClass(err)
		}
	}
	if err := p.MergeFileLayers(path); err != nil {
		return "ERR merge " + errClass(err)
	}
	b, err := p.Output("json")
	if err != nil {
		return "ERR output"
	}
	return string(b)
}

func c18ChdirMain(args []string) int {
	if len(args) != 2 {
		return 2
	}
	T := args[0]
	variant := 0
	fmt.Sscan(args[1], &variant)
	var out c18ChdirOut
	if err := os.Chdir(filepath.Join(T, "A")); err != nil {
		return 2
	}
	out.First = c18ChdirEval(variant)
	if err := os.Chdir(filepath.Join(T, "B")); err != nil {
		return 2
	}
	mon, err := newC18Monitor()
	if err != nil {
		return 2
	}
	mon.watch(filepath.Join(T, "A", "root", "in.yaml"))
	mon.watch(filepath.Join(T, "A", "root", "base.yaml"))
	out.Second = c18ChdirEval(variant)
	out.OpenedA = len(mon.events())
	mon.close()
	b, _ := json.Marshal(out)
	fmt.Println(string(b))
	return 0
}

func c18ChdirSpace() core.Space {
	return core.Space{Name: "working-directory-changes-between-evaluations", N: int64(len(c18ChdirVariants)), Chunk: 1,
		Desc: func(i int64) any { return c18ChdirVariants[i] },
		Run: func(c *core.Ctx, i int64) {
			T := scratchDir()
			defer os.RemoveAll(T)
			for _, d := range []string{"A", "B"} {
				c18Write(filepath.Join(T, d, "root", "base.yaml"), "b: "+d+"\n")
				c18Write(filepath.Join(T, d, "root", "in.yaml"), "v: "+d+"\n$parent: base\n")
			}
			exe, err := os.Executable()
			if err != nil {
				return
			}
			c.Eval()
			c.Trans(2)
			raw, err := exec.Command(exe, "c18chdir", T, fmt.Sprint(i)).Output()
			wit := "chdir between evaluations: " + c18ChdirVariants[i]
			var out c18ChdirOut
			if err != nil || json.Unmarshal(raw, &out) != nil {
				c.Fail("harness", "subprocess-failed", wit, fmt.Sprint(err, string(raw)))
				return
			}
			c.Validated()
			c.Nontrivial()
			wantA, wantB := "{\"b\":\"A\",\"v\":\"A\"}\n", "{\"b\":\"B\",\"v\":\"B\"}\n"
			if out.First != wantA {
				c.Fail("refContain", "in-root-output-wrong", wit, map[string]any{"first": out.First, "want": wantA})
				return
			}
			if out.OpenedA > 0 {
				c.Outcome("OUTSIDE-FILE-READ")
				c.Fail("no-read-outside-root", "outside-file-opened", wit, map[string]any{"second": out.Second, "opened_below_previous_directory": out.OpenedA})
				return
			}
			if out.Second != wantB {
				c.Outcome("STALE-DIRECTORY")
				c.Fail("refContain", "relative-root-resolved-against-an-earlier-working-directory", wit, map[string]any{"second": out.Second, "want": wantB})
				return
			}
			c.Outcome("follows-working-directory")
		}}
}
