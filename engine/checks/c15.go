package checks

import (
	"errors"
	"fmt"
	"math"
	"os"
	"os/exec"
	"path/filepath"
	"strings"

	"github.com/gopatchy/bkl"
	"verif/core"
	"verif/gen"
	"verif/toolcopy/bkld"
)

// C15 — bkld round trip: base + bkld(base, target) evaluates to target.

func init() {
	core.Register(&core.Check{ID: "C15", Title: "bkld round trip", Build: buildC15})
}

var c15Alphabet = gen.Alphabet{Scalars: []any{1, 2, "x"}, Keys: []string{"a", "b", "l"}, MaxList: 3, MaxMap: 3}

func c15Trees(n int) []any {
	return gen.Filter(gen.Trees(c15Alphabet, n), gen.IsMap)
}

// c15Diff mirrors cmd/bkld/main.go: diffDoc(target, base) on the evaluated
// documents, using the copied diff.go. A panic (fatal) is reported as an error.
func c15Diff(base, target any) (layer any, err error) {
	defer func() {
		if r := recover(); r != nil {
			err = fmt.Errorf("bkld fatal: %v", r)
		}
	}()
	return bkld.DiffDoc(bkl.NewDocumentWithData("t", core.Clone(target)), bkl.NewDocumentWithData("b", core.Clone(base)))
}

// c15Apply = bkl base layer (two inputs; the layer carries $match: {}).
func c15Apply(base, layer any) ([]any, error) {
	p := newParser()
	if err := p.MergeDocument(bkl.NewDocumentWithData("base", core.Clone(base))); err != nil {
		return nil, err
	}
	if err := p.MergeDocument(bkl.NewDocumentWithData("layer", core.Clone(layer))); err != nil {
		return nil, err
	}
	return p.OutputDocuments()
}

// c15Class names the kind of edit, for outcome statistics and finding witnesses.
func c15Class(base, target any) string {
	var cls []string
	var rec func(b, t any)
	add := func(s string) {
		for _, c := range cls {
			if c == s {
				return
			}
		}
		cls = append(cls, s)
	}
	kind := func(v any) string {
		switch x := v.(type) {
		case map[string]any:
			if len(x) == 0 {
				return "emptymap"
			}
			return "map"
		case []any:
			return "list"
		}
		return "scalar"
	}
	rec = func(b, t any) {
		kb, kt := kind(b), kind(t)
		bm, bok := b.(map[string]any)
		tm, tok := t.(map[string]any)
		if bok && tok {
			for k, bv := range bm {
				if tv, ok := tm[k]; ok {
					rec(bv, tv)
				}
			}
			return
		}
		bl, bok2 := b.([]any)
		tl, tok2 := t.([]any)
		if bok2 && tok2 {
			if core.Canon(bl) == core.Canon(tl) {
				return
			}
			sb, st := map[string]int{}, map[string]int{}
			for _, e := range bl {
				sb[core.Canon(e)]++
			}
			for _, e := range tl {
				st[core.Canon(e)]++
			}
			same := len(sb) == len(st)
			for k, n := range sb {
				if st[k] != n {
					same = false
				}
			}
			if same {
				add("list-reorder")
				return
			}
			sameSet := len(sb) == len(st)
			for k := range sb {
				if st[k] == 0 {
					sameSet = false
				}
			}
			if sameSet {
				add("list-duplicate-count")
				return
			}
			add("list-edit")
			return
		}
		if kb != kt && !(kb == "emptymap" && kt == "map") && !(kb == "map" && kt == "emptymap") {
			add(kb + "->" + kt)
		}
	}
	rec(base, target)
	if len(cls) == 0 {
		return "plain"
	}
	return strings.Join(cls, "+")
}

func c15Pair(c *core.Ctx, base, target any) {
	c.Eval()
	c.Trans(3)
	wit := core.Canon(base) + " => " + core.Canon(target)
	layer, err := c15Diff(base, target)
	c.Validated()
	if err != nil {
		c.Outcome("BKLD-FAILS")
		c.Fail("round-trip", "bkld-fails", c15Class(base, target)+": "+wit, errStr(err))
		return
	}
	same := core.Equal(base, target)
	got, err := c15Apply(base, layer)
	if err != nil {
		c.Outcome("LAYER-REJECTED")
		c.Fail("round-trip", "layer-rejected", c15Class(base, target)+": "+wit, map[string]any{"layer": layer, "error": errStr(err)})
		return
	}
	if !core.Equal(got, []any{target}) {
		c.Outcome("NOT-REPRODUCED")
		c.Fail("round-trip", "target-not-reproduced", c15Class(base, target)+": "+wit, map[string]any{"layer": layer, "got": got})
		return
	}
	if same {
		// empty layer: nothing but the $match selector
		if m, ok := layer.(map[string]any); ok {
			for k := range m {
				if k != "$match" {
					c.Fail("round-trip", "nonempty-layer-for-equal-inputs", wit, layer)
					return
				}
			}
		} else if layer != nil {
			c.Fail("round-trip", "nonempty-layer-for-equal-inputs", wit, layer)
			return
		}
		c.Outcome("equal-inputs-empty-layer")
		return
	}
	c.Nontrivial()
	c.State(core.Canon(layer))
	c.Outcome("reproduced")
}

func buildC15(tier string) *core.Plan {
	n := 4
	trees := c15Trees(n)
	// list entries where one map is a subset of another, duplicates and reorders beyond the node bound
	entries := []any{1, 2, "x", map[string]any{"a": 1}, map[string]any{"a": 1, "b": 2}, map[string]any{"a": 2}, []any{1}}
	var lists []any
	lists = append(lists, []any{})
	for _, a := range entries {
		lists = append(lists, []any{a})
		for _, b := range entries {
			lists = append(lists, []any{a, b})
			if tier == "thorough" {
				for _, d := range entries {
					lists = append(lists, []any{a, b, d})
				}
			}
		}
	}
	nt := int64(len(trees))
	pairs := core.Space{Name: fmt.Sprintf("all-pairs-%d-nodes", n), N: nt * nt,
		Desc: func(i int64) any { return map[string]any{"base": trees[i/nt], "target": trees[i%nt]} },
		Run:  func(c *core.Ctx, i int64) { c15Pair(c, trees[i/nt], trees[i%nt]) }}
	var bigPairs *core.Space
	if tier == "thorough" {
		// (all 130 M ordered pairs of 5-node trees take an hour: the fifth node is explored on one side)
		big, lil := c15Trees(5), c15Trees(4)
		nb, nl5 := int64(len(big)), int64(len(lil))
		bigPairs = &core.Space{Name: "pairs-5-nodes-with-4-nodes-both-directions", N: nb * nl5,
			Desc: func(i int64) any { return map[string]any{"a": big[i/nl5], "b": lil[i%nl5]} },
			Run: func(c *core.Ctx, i int64) {
				c15Pair(c, big[i/nl5], lil[i%nl5])
				c15Pair(c, lil[i%nl5], big[i/nl5])
			}}
	}
	nl := int64(len(lists))
	listPairs := core.Space{Name: "list-pairs", N: nl * nl,
		Desc: func(i int64) any {
			return map[string]any{"base": map[string]any{"l": lists[i/nl], "k": 1}, "target": map[string]any{"l": lists[i%nl], "k": 1}}
		},
		Run: func(c *core.Ctx, i int64) {
			c15Pair(c, map[string]any{"l": lists[i/nl], "k": 1}, map[string]any{"l": lists[i%nl], "k": 1})
		}}
	// CLI: bkld then bkl, all 9 input format mixes x 3 output formats, pairs <= 3 nodes
	small := c15Trees(3)
	ns := int64(len(small))
	fm := []string{"json", "yaml", "toml"}
	cli := core.Space{Name: "cli-format-mixes", N: ns * ns,
		Desc: func(i int64) any {
			return map[string]any{"base": small[i/ns], "target": small[i%ns], "formats": "all 27 (base, target, layer) format assignments"}
		},
		Run: func(c *core.Ctx, i int64) {
			base, target := small[i/ns], small[i%ns]
			k := int(i % 27)
			combos := []int{k}
			if tier == "thorough" {
				combos = nil
				for j := 0; j < 27; j++ {
					combos = append(combos, j)
				}
			}
			for _, j := range combos {
				c15CLI(c, base, target, fm[j%3], fm[(j/3)%3], fm[j/9])
			}
		}}
	// inputs that use references: bkld evaluates both files first (each against itself)
	refBases := []any{
		map[string]any{"id": 1, "a": map[string]any{"v": 2}, "k": 1},
		map[string]any{"id": 1, "a": map[string]any{"v": 2}, "c": "$merge:a"},
		map[string]any{"id": 1, "a": map[string]any{"v": 1}, "b": map[string]any{"v": 1}},
	}
	refTargets := []any{
		map[string]any{"id": 1, "a": map[string]any{"v": 1}, "b": "$merge:a"},
		map[string]any{"id": 1, "a": map[string]any{"v": 1}, "b": map[string]any{"$replace": []any{map[string]any{"id": 1}, "a"}}},
		map[string]any{"id": 1, "a": map[string]any{"v": 1}, "b": map[string]any{"$merge": map[string]any{"$match": map[string]any{"id": 1}, "$path": "a"}, "z": 1}},
		map[string]any{"id": 1, "l": []any{1, map[string]any{"$merge": "m"}}, "m": []any{2}},
		map[string]any{"id": 1, "a": map[string]any{"v": 3}, "t": `$"{a.v}-{id}"`},
		map[string]any{"id": 1, "a": map[string]any{"v": 2}, "k": 1},
	}
	// edits that change only the kind of a value, not the way it prints ("8080" -> 8080, "[1 2]" -> [1, 2])
	kinds := []any{1, "1", true, "true", 1.5, "1.5", "x", "", "[1 2]", []any{1, 2}, "[a b]", []any{"a", "b"}, []any{"a b"}, "map[b:1]", map[string]any{"b": 1}, map[string]any{"b": "1"}, "b c:d", map[string]any{"a": "b c:d"}, map[string]any{"a": "b", "c": "d"}}
	nk := int64(len(kinds))
	kindSpace := core.Space{Name: "values-that-print-alike", N: nk * nk,
		Desc: func(i int64) any { return map[string]any{"base_value": kinds[i/nk], "target_value": kinds[i%nk]} },
		Run: func(c *core.Ctx, i int64) {
			bv, tv := kinds[i/nk], kinds[i%nk]
			base := map[string]any{"v": core.Clone(bv), "k": 1}
			target := map[string]any{"v": core.Clone(tv), "k": 1}
			c15Pair(c, base, target)
			c15CLI(c, base, target, "json", "yaml", "json")
			c15CLI(c, map[string]any{"m": map[string]any{"v": core.Clone(bv)}}, map[string]any{"m": map[string]any{"v": core.Clone(tv)}}, "yaml", "json", "yaml")
		}}
	// values and keys that carry an escaped dollar: the layer must keep them escaped
	dollars := []any{1, "x", "$$x", "$$", "a$$b", "$$merge:a", "$$required", "$$$$", `$$"{x}"`, "$$delete", "$$replace"}
	nd := int64(len(dollars))
	dollarSpace := core.Space{Name: "escaped-dollar-values-and-keys", N: nd * nd,
		Desc: func(i int64) any { return map[string]any{"base_value": dollars[i/nd], "target_value": dollars[i%nd]} },
		Run: func(c *core.Ctx, i int64) {
			bv, tv := dollars[i/nd], dollars[i%nd]
			pairs := [][2]any{
				{map[string]any{"v": bv, "k": 1}, map[string]any{"v": tv, "k": 1}},
				{map[string]any{"l": []any{bv, "z"}, "k": 1}, map[string]any{"l": []any{tv, "z", bv}, "k": 1}},
			}
			if ks, ok := tv.(string); ok {
				pairs = append(pairs, [2]any{map[string]any{"k": 1}, map[string]any{"k": 1, ks: bv}})
				if bs, ok := bv.(string); ok && bs != ks {
					pairs = append(pairs, [2]any{map[string]any{"k": 1, bs: 1}, map[string]any{"k": 1, ks: 1}})
				}
			}
			for _, pr := range pairs {
				base, target := pr[0], pr[1]
				c.Eval()
				c.Trans(4)
				wit := "dollar: " + core.Canon(base) + " => " + core.Canon(target)
				want, werr := evalTree(target)
				if werr != nil {
					continue
				}
				layer, err := c15Diff(base, target)
				c.Validated()
				c.Nontrivial()
				if err != nil {
					c.Fail("round-trip", "bkld-fails", wit, errStr(err))
					return
				}
				got, err := c15Apply(base, layer)
				if err != nil {
					c.Outcome("LAYER-REJECTED")
					c.Fail("round-trip", "layer-rejected", wit, map[string]any{"layer": layer, "error": errStr(err)})
					return
				}
				if !core.Equal(got, want) {
					c.Outcome("NOT-REPRODUCED")
					c.Fail("round-trip", "target-not-reproduced", wit, map[string]any{"layer": layer, "got": got, "want": want})
					return
				}
				c.Outcome("reproduced")
				c15CLI(c, base, target, "yaml", "json", "yaml")
			}
		}}
	// a base (and a target) that inherit from parent layers: bkld must diff what the files EVALUATE to
	inheritTargets := []any{
		map[string]any{"x": 1, "l": []any{1, 2}, "y": 2},            // exactly what the layered base evaluates to
		map[string]any{"x": 1, "l": []any{1, 2}, "y": 3},            // one key of the upper layer changed
		map[string]any{"x": 5, "l": []any{1, 2}, "y": 2},            // one key of the parent layer changed
		map[string]any{"l": []any{1, 2}, "y": 2},                    // a key of the parent layer removed
		map[string]any{"x": 1, "l": []any{2}, "y": 2},               // a list entry of the parent layer removed
		map[string]any{"x": 1, "l": []any{1, 2, 3}, "y": 2, "z": 0}, // additions
	}
	inheritSpace := core.Space{Name: "cli-base-with-parent-layers", N: int64(len(inheritTargets)) * 2, Chunk: 1,
		Desc: func(i int64) any {
			return map[string]any{"target": inheritTargets[i/2], "base_inherits_by": []string{"filename", "$parent"}[i%2]}
		},
		Run: func(c *core.Ctx, i int64) {
			target := inheritTargets[i/2]
			dir := scratchDir()
			defer os.RemoveAll(dir)
			baseName := "b.c.yaml"
			writeDoc(dir, "b.yaml", "yaml", map[string]any{"x": 1, "l": []any{1}})
			if i%2 == 0 {
				writeDoc(dir, "b.c.yaml", "yaml", map[string]any{"y": 2, "l": []any{2}})
			} else {
				baseName = "q.yaml"
				writeDoc(dir, "q.yaml", "yaml", map[string]any{"$parent": "b", "y": 2, "l": []any{2}})
			}
			// the target inherits too: t.yaml holds everything but y
			tl := core.Clone(target).(map[string]any)
			ty, hasY := tl["y"]
			delete(tl, "y")
			writeDoc(dir, "t.yaml", "yaml", tl)
			tu := map[string]any{}
			if hasY {
				tu["y"] = ty
			}
			writeDoc(dir, "t.u.yaml", "yaml", tu)
			wit := fmt.Sprintf("cli inherited base %s => %s", baseName, core.Canon(target))
			c.Eval()
			c.Trans(3)
			os.MkdirAll(filepath.Join(dir, "out"), 0o755)
			so, se, code, err := runTool(dir, "bkld", "-o", "out/layer.yaml", baseName, "t.u.yaml")
			c.Validated()
			c.Nontrivial()
			if err != nil || code != 0 {
				c.Fail("cli-round-trip", "bkld-fails", wit, map[string]any{"stderr": se, "stdout": so, "exit": code})
				return
			}
			so, se, code, _ = runTool(dir, "bkl", "-f", "json", baseName, "out/layer.yaml")
			if code != 0 {
				lb, _ := os.ReadFile(filepath.Join(dir, "out", "layer.yaml"))
				c.Outcome("CLI-LAYER-REJECTED")
				c.Fail("cli-round-trip", "layer-rejected", wit, map[string]any{"stderr": se, "layer": string(lb)})
				return
			}
			got, perr := c14ParseText("json", so)
			if perr != nil || !core.EqualLoose(got, target) {
				lb, _ := os.ReadFile(filepath.Join(dir, "out", "layer.yaml"))
				c.Outcome("CLI-NOT-REPRODUCED")
				c.Fail("cli-round-trip", "target-not-reproduced", wit, map[string]any{"stdout": so, "layer": string(lb)})
				return
			}
			c.Outcome("cli-reproduced")
		}}
	nrt := int64(len(refTargets))
	refSpace := core.Space{Name: "cli-inputs-with-references", N: int64(len(refBases)) * nrt, Chunk: 1,
		Desc: func(i int64) any { return map[string]any{"base": refBases[i/nrt], "target": refTargets[i%nrt]} },
		Run: func(c *core.Ctx, i int64) {
			base, target := refBases[i/nrt], refTargets[i%nrt]
			want, werr := evalTree(target)
			if werr != nil || len(want) != 1 {
				return
			}
			dir := scratchDir()
			defer os.RemoveAll(dir)
			if writeDoc(dir, "base.yaml", "yaml", base) != nil || writeDoc(dir, "target.json", "json", target) != nil {
				return
			}
			os.MkdirAll(filepath.Join(dir, "out"), 0o755)
			c.Eval()
			c.Trans(2)
			wit := "cli references: " + core.Canon(base) + " => " + core.Canon(target)
			_, se, code, err := runTool(dir, "bkld", "-o", "out/layer.yaml", "base.yaml", "target.json")
			c.Validated()
			c.Nontrivial()
			if err != nil || code != 0 {
				c.Fail("cli-round-trip", "bkld-fails", "references: "+wit, se)
				return
			}
			so, se, code, _ := runTool(dir, "bkl", "-f", "json", "base.yaml", "out/layer.yaml")
			if code != 0 {
				c.Fail("cli-round-trip", "layer-rejected", "references: "+wit, se)
				return
			}
			got, perr := c14ParseText("json", so)
			if perr != nil || !core.EqualLoose(got, want[0]) {
				c.Outcome("CLI-NOT-REPRODUCED")
				c.Fail("cli-round-trip", "target-not-reproduced", "references: "+wit, map[string]any{"stdout": so, "want": want[0]})
				return
			}
			c.Outcome("cli-reproduced")
		}}
	// the same data in two formats (boundary numbers included): the layer must be empty; and edits next to such numbers
	numBase := map[string]any{"quota": 3000000000, "sizes": []any{1, 4294967296}, "f": 0.1, "max": math.MaxInt64, "items": []any{map[string]any{"id": 5000000000}, map[string]any{"id": 1}}}
	numTargets := []any{
		numBase,
		map[string]any{"quota": 3000000000, "sizes": []any{1, 4294967296}, "f": 0.1, "max": math.MaxInt64, "items": []any{map[string]any{"id": 5000000000}, map[string]any{"id": 1}}, "extra": 1},
		map[string]any{"quota": 3000000001, "sizes": []any{1, 4294967296, 7}, "f": 0.1, "max": math.MaxInt64, "items": []any{map[string]any{"id": 5000000000}, map[string]any{"id": 1}, map[string]any{"id": 2}}},
	}
	// neighbouring integers that share one float64 image, and the largest/smallest integers
	numTargets = append(numTargets,
		map[string]any{"quota": 3000000000, "sizes": []any{1, 4294967296}, "f": 0.1, "max": math.MaxInt64 - 1, "items": []any{map[string]any{"id": 5000000000}, map[string]any{"id": 1}}},
		map[string]any{"quota": 3000000000, "sizes": []any{1, 4294967297}, "f": 0.1, "max": math.MaxInt64, "items": []any{map[string]any{"id": 5000000000}, map[string]any{"id": 1}}},
	)
	neigh := [][2]any{{9007199254740992, 9007199254740993}, {9007199254740993, 9007199254740992}, {math.MaxInt64, math.MaxInt64 - 1}, {math.MinInt64, math.MinInt64 + 1}, {0.1, 0.10000000000000002}, {1e21, 1.0000000000000001e21}, {0, -1}}
	// (map-rooted documents only: list roots are outside the property's domain)
	rootKinds := []any{map[string]any{"a": 1}, map[string]any{}, map[string]any{"a": []any{1}}, map[string]any{"a": []any{}}, map[string]any{"a": map[string]any{"b": 1}}, map[string]any{"a": map[string]any{}}, map[string]any{"a": "s"},
		map[string]any{"a": []any{1}, "b": map[string]any{"c": 1}}, map[string]any{"a": map[string]any{"c": 1}, "b": []any{1}}}
	nrk := int64(len(rootKinds))
	rootSpace := core.Space{Name: "root-and-top-level-kind-changes", N: nrk * nrk,
		Desc: func(i int64) any { return map[string]any{"base": rootKinds[i/nrk], "target": rootKinds[i%nrk]} },
		Run: func(c *core.Ctx, i int64) {
			base, target := rootKinds[i/nrk], rootKinds[i%nrk]
			c15Pair(c, base, target)
			c15CLI(c, base, target, "toml", "yaml", "json")
			c15CLI(c, base, target, "yaml", "json", "yaml")
			c15CLI(c, base, target, "json", "toml", "toml")
		}}
	neighSpace := core.Space{Name: "neighbouring-numbers", N: int64(len(neigh)),
		Desc: func(i int64) any { return neigh[i] },
		Run: func(c *core.Ctx, i int64) {
			a, b := neigh[i][0], neigh[i][1]
			c15Pair(c, map[string]any{"n": a, "k": 1}, map[string]any{"n": b, "k": 1})
			c15Pair(c, map[string]any{"l": []any{a, 7}, "k": 1}, map[string]any{"l": []any{b, 7}, "k": 1})
			c15Pair(c, map[string]any{"l": []any{map[string]any{"id": a, "v": 1}}}, map[string]any{"l": []any{map[string]any{"id": b, "v": 1}}})
			c15CLI(c, map[string]any{"n": a, "k": 1}, map[string]any{"n": b, "k": 1}, "json", "yaml", "json")
			c15CLI(c, map[string]any{"l": []any{a, 7}}, map[string]any{"l": []any{b, 7}}, "yaml", "json", "yaml")
		}}
	numSpace := core.Space{Name: "cli-cross-format-numbers", N: int64(len(numTargets) * 27), Chunk: 1,
		Desc: func(i int64) any {
			return map[string]any{"base": numBase, "target": numTargets[i/27], "formats": []string{fm[i%3], fm[(i/3)%3], fm[(i/9)%3]}}
		},
		Run: func(c *core.Ctx, i int64) {
			c15CLI(c, numBase, numTargets[i/27], fm[i%3], fm[(i/3)%3], fm[(i/9)%3])
		}}
	allSpaces := []core.Space{pairs, listPairs, cli, refSpace, numSpace, kindSpace, dollarSpace, inheritSpace, neighSpace, rootSpace}
	if bigPairs != nil {
		allSpaces = append(allSpaces, *bigPairs)
	}
	return &core.Plan{
		Spaces: allSpaces,
		Rule:   "every ordered pair (base, target) of map-rooted, null-free, $-free trees up to N nodes over keys {a,b,l} and scalars {1,2,x}; every pair of lists of <=2 (thorough 3) entries drawn from scalars, sub-lists and maps where one is a subset of another; CLI round trips in format mixes; non-trivial = base differs from target",
		Assumptions: []string{"in-process runs use cmd/bkld/diff.go copied from /repo's working tree at build time (package clause rewritten, fatal() panics), driven exactly like cmd/bkld/main.go; the CLI space runs the real binaries",
			"the emitted layer is applied as a second input (`bkl base layer`), where its $match: {} selects the base document"},
		Bounds: map[string]any{"nodes": n, "trees": len(trees), "lists": len(lists)},
	}
}

// runTool runs a built CLI in dir and returns stdout, stderr and the exit code.
func runTool(dir, tool string, args ...string) (string, string, int, error) {
	cmd := exec.Command(filepath.Join(core.WorkDir(), "bin", tool), args...)
	cmd.Dir = dir
	cmd.Env = []string{"PATH=/usr/bin:/bin", "HOME=/root"}
	var so, se strings.Builder
	cmd.Stdout, cmd.Stderr = &so, &se
	err := runWithWatchdog(cmd)
	code := 0
	if err != nil {
		var ee *exec.ExitError
		if errors.As(err, &ee) {
			code = ee.ExitCode()
			err = nil
		}
	}
	return so.String(), se.String(), code, err
}

func writeDoc(dir, name, format string, docs ...any) error {
	f, err := bkl.GetFormat(format)
	if err != nil {
		return err
	}
	b, err := f.MarshalStream(docs)
	if err != nil {
		return err
	}
	return os.WriteFile(filepath.Join(dir, name), b, 0o644)
}

func c15CLI(c *core.Ctx, base, target any, fb, ft, fl string) {
	dir := scratchDir()
	defer os.RemoveAll(dir)
	if writeDoc(dir, "base."+fb, fb, base) != nil || writeDoc(dir, "target."+ft, ft, target) != nil {
		return
	}
	wit := fmt.Sprintf("cli %s/%s/%s: %s => %s", fb, ft, fl, core.Canon(base), core.Canon(target))
	c.Eval()
	c.Trans(2)
	// the output file already exists and is longer than the layer (a re-run onto the same path)
	os.WriteFile(filepath.Join(dir, "layer."+fl), []byte(strings.Repeat("# previous layer content that must not survive\n", 30)), 0o644)
	so, se, code, err := runTool(dir, "bkld", "-f", fl, "-o", "layer."+fl, "base."+fb, "target."+ft)
	c.Validated()
	if err != nil || code != 0 {
		c.Outcome("CLI-BKLD-FAILS")
		c.Fail("cli-round-trip", "bkld-fails", c15Class(base, target)+": "+wit, map[string]any{"stderr": se, "stdout": so, "exit": code})
		return
	}
	// layer lives in its own directory so that no layer name is ambiguous
	os.MkdirAll(filepath.Join(dir, "out"), 0o755)
	os.Rename(filepath.Join(dir, "layer."+fl), filepath.Join(dir, "out", "layer."+fl))
	so, se, code, err = runTool(dir, "bkl", "-f", "json", "base."+fb, filepath.Join("out", "layer."+fl))
	if err != nil || code != 0 {
		c.Outcome("CLI-LAYER-REJECTED")
		c.Fail("cli-round-trip", "layer-rejected", c15Class(base, target)+": "+wit, map[string]any{"stderr": se, "exit": code})
		return
	}
	// what the target file evaluates to (escaped dollars come out unescaped)
	want := target
	if outs, err := evalTree(target); err == nil && len(outs) == 1 {
		want = outs[0]
	}
	got, perr := c14ParseText("json", so)
	if perr != nil || !core.EqualLoose(got, want) {
		c.Outcome("CLI-NOT-REPRODUCED")
		c.Fail("cli-round-trip", "target-not-reproduced", c15Class(base, target)+": "+wit, map[string]any{"stdout": so})
		return
	}
	if !core.Equal(base, target) {
		c.NontrivialSub()
	}
	c.Outcome("cli-reproduced")
}
