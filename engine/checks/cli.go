package checks

import (
	"errors"
	"os/exec"
	"time"
)

var errWatchdog = errors.New("watchdog: process did not finish")

// CLIWatchdog is generous on purpose (a run normally takes ~3 ms): it only
// nominates a hang, never measures performance.
var CLIWatchdog = 60 * time.Second

// runWithWatchdog runs cmd to completion; kills it after CLIWatchdog.
func runWithWatchdog(cmd *exec.Cmd) error { return runWithLimit(cmd, CLIWatchdog) }

// runWithLimit runs cmd to completion; kills it after limit.
func runWithLimit(cmd *exec.Cmd, limit time.Duration) error {
	if err := cmd.Start(); err != nil {
		return err
	}
	done := make(chan error, 1)
	go func() { done <- cmd.Wait() }()
	select {
	case err := <-done:
		return err
	case <-time.After(limit):
		cmd.Process.Kill()
		<-done
		return errWatchdog
	}
}
