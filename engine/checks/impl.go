// Package checks holds one file per property C01..C20.
package checks

import (
	"encoding/json"
	"fmt"
	"io"
	"os"
	"reflect"
	"runtime"
	"strings"
	"sync"
	"unsafe"

	"github.com/gopatchy/bkl"
	"verif/core"
)

// newParser returns a fresh real parser. bkl.New opens the root directory, and
// the descriptor is only released by a finalizer; a bounded-exhaustive run
// creates millions of parsers, so the harness closes the root of a parser once
// it is 256 parsers old (no check keeps more than a handful alive at a time).
// Only file loading uses the root; a tree whose Parser has no such field is
// left to the garbage collector.
func newParser() *bkl.Parser {
	p, err := bkl.New()
	if err != nil {
		runtime.GC()
		p, err = bkl.New()
		if err != nil {
			panic(fmt.Sprintf("harness: bkl.New: %v", err))
		}
	}
	parserRingMu.Lock()
	old := parserRing[parserRingPos]
	parserRing[parserRingPos] = p
	parserRingPos = (parserRingPos + 1) % len(parserRing)
	parserRingMu.Unlock()
	if old != nil {
		closeParserRoot(old)
	}
	return p
}

var (
	parserRing    [256]*bkl.Parser
	parserRingPos int
	parserRingMu  sync.Mutex
)

func closeParserRoot(p *bkl.Parser) {
	defer func() { recover() }()
	f := reflect.ValueOf(p).Elem().FieldByName("root")
	if !f.IsValid() || f.Kind() != reflect.Ptr || f.IsNil() {
		return
	}
	if r, ok := reflect.NewAt(f.Type(), unsafe.Pointer(f.UnsafeAddr())).Elem().Interface().(*os.Root); ok && r != nil {
		r.Close()
	}
}

// docData snapshots Documents() as deep copies.
func docData(p *bkl.Parser) []any {
	ds := p.Documents()
	out := make([]any, len(ds))
	for i, d := range ds {
		out[i] = core.Clone(d.Data)
	}
	return out
}

// evalTree evaluates one tree as a single document through the public API.
func evalTree(v any) ([]any, error) {
	p := newParser()
	if err := p.MergeDocument(bkl.NewDocumentWithData("d0", core.Clone(v))); err != nil {
		return nil, err
	}
	return p.OutputDocuments()
}

// evalStream evaluates a stream of independent documents.
func evalStream(docs []any) ([]any, error) {
	p := newParser()
	for i, v := range docs {
		if err := p.MergeDocument(bkl.NewDocumentWithData(fmt.Sprintf("d%d", i), core.Clone(v))); err != nil {
			return nil, err
		}
	}
	return p.OutputDocuments()
}

// layerAPI merges child over base (child lists base as parent) and returns the parser.
func layerAPI(base, child any) (*bkl.Parser, error) {
	p := newParser()
	b := bkl.NewDocumentWithData("base", core.Clone(base))
	if err := p.MergeDocument(b); err != nil {
		return p, fmt.Errorf("base: %w", err)
	}
	c := bkl.NewDocumentWithData("child", core.Clone(child))
	c.AddParents(b)
	if err := p.MergeDocument(c); err != nil {
		return p, err
	}
	return p, nil
}

func errStr(err error) string {
	if err == nil {
		return ""
	}
	s := err.Error()
	if len(s) > 300 {
		s = s[:300]
	}
	return s
}

// errClass reduces an error to the bkl sentinel it wraps (text in parentheses
// before "(bkl error)"), used only for outcome statistics, never for verdicts.
func errClass(err error) string {
	if err == nil {
		return "ok"
	}
	s := err.Error()
	i := strings.LastIndex(s, " (bkl error)")
	if i < 0 {
		return "error:other"
	}
	s = s[:i]
	j := strings.LastIndex(s, ": ")
	if j >= 0 {
		s = s[j+2:]
	}
	if k := strings.LastIndex(s, "("); k >= 0 {
		s = s[k+1:]
	}
	if len(s) > 40 {
		s = s[len(s)-40:]
	}
	return "error:" + s
}

// doubleDollar doubles every $ in every key and string.
func doubleDollar(v any) any {
	switch x := v.(type) {
	case string:
		return strings.ReplaceAll(x, "$", "$$")
	case map[string]any:
		m := make(map[string]any, len(x))
		for k, c := range x {
			m[strings.ReplaceAll(k, "$", "$$")] = doubleDollar(c)
		}
		return m
	case []any:
		l := make([]any, len(x))
		for i, c := range x {
			l[i] = doubleDollar(c)
		}
		return l
	default:
		return v
	}
}

// dropNulls removes null map values and null list entries recursively.
func dropNulls(v any) any {
	switch x := v.(type) {
	case map[string]any:
		m := make(map[string]any, len(x))
		for k, c := range x {
			if c == nil {
				continue
			}
			m[k] = dropNulls(c)
		}
		return m
	case []any:
		l := []any{}
		for _, c := range x {
			if c == nil {
				continue
			}
			l = append(l, dropNulls(c))
		}
		return l
	default:
		return v
	}
}

func anyString(v any, pred func(string) bool) bool {
	switch x := v.(type) {
	case string:
		return pred(x)
	case map[string]any:
		for k, c := range x {
			if pred(k) || anyString(c, pred) {
				return true
			}
		}
	case []any:
		for _, c := range x {
			if anyString(c, pred) {
				return true
			}
		}
	}
	return false
}

func getAt(v any, p []any) any {
	for _, s := range p {
		switch k := s.(type) {
		case string:
			v = v.(map[string]any)[k]
		case int:
			v = v.([]any)[k]
		}
	}
	return v
}

// setAt returns a copy of root with the node at p replaced.
func setAt(root any, p []any, nv any) any {
	if len(p) == 0 {
		return nv
	}
	switch k := p[0].(type) {
	case string:
		m := map[string]any{}
		for kk, vv := range root.(map[string]any) {
			m[kk] = vv
		}
		m[k] = setAt(m[k], p[1:], nv)
		return m
	case int:
		l := append([]any{}, root.([]any)...)
		l[k] = setAt(l[k], p[1:], nv)
		return l
	}
	return root
}

func newDoc(id string, data any) *bkl.Document {
	return bkl.NewDocumentWithData(id, core.Clone(data))
}

// parseJSONStream decodes a stream of JSON documents (independent of bkl).
func parseJSONStream(s string) ([]any, error) {
	d := json.NewDecoder(strings.NewReader(s))
	d.UseNumber()
	out := []any{}
	for {
		var v any
		err := d.Decode(&v)
		if err == io.EOF {
			return out, nil
		}
		if err != nil {
			return nil, err
		}
		out = append(out, c14Norm(v))
	}
}
