package checks

import (
	"fmt"
	"os"
	"path/filepath"
	"reflect"
	"sort"
	"strings"

	"github.com/gopatchy/bkl"
	"verif/core"
	"verif/gen"
	"verif/ref"
)

// C02 — stream layering targets the right documents and treats each independently.

func init() {
	core.Register(&core.Check{ID: "C02", Title: "stream layering", Build: buildC02})
}

type c02Doc struct {
	HasSel bool `json:"has_match"`
	Sel    any  `json:"match"`
	Body   any  `json:"body"`
}

func (d c02Doc) data() any {
	b, ok := d.Body.(map[string]any)
	if !ok || !d.HasSel {
		return core.Clone(d.Body)
	}
	m := core.Clone(b).(map[string]any)
	m["$match"] = core.Clone(d.Sel)
	return m
}

// c02Track remembers, per stored document, what it started as and which
// patch bodies were applied to it: the input of the independence oracle.
type c02Track struct {
	initial any
	applied []any
}

type c02Run struct {
	p      *bkl.Parser
	s      *ref.Stream
	prevI  []*bkl.Document
	prevM  []*ref.Doc
	tracks []*c02Track
	n      int
	dead   bool
	// free: documents are handed to MergeDocument without parents (successive calls / several
	// files on one command line): $match is then resolved among all documents the parser holds
	free bool
}

func newC02Run() *c02Run { return &c02Run{p: newParser(), s: &ref.Stream{}} }

// layer applies one layer (a list of child documents whose parents are all
// documents of the previous layer). Returns false when the history ends.
func (r *c02Run) layer(c *core.Ctx, oracle, wit string, docs []c02Doc) bool {
	var curI []*bkl.Document
	var curM []*ref.Doc
	for _, cd := range docs {
		id := fmt.Sprintf("L%d", r.n)
		r.n++
		data := cd.data()
		d := bkl.NewDocumentWithData(id, core.Clone(data))
		rd := &ref.Doc{ID: id, Data: core.Clone(data)}
		if !r.free {
			d.AddParents(r.prevI...)
			rd.Parents = append([]*ref.Doc{}, r.prevM...)
		}
		curI = append(curI, d)
		curM = append(curM, rd)
		before := len(r.s.Docs)
		c.Eval()
		c.Trans(1)
		err := r.p.MergeDocument(d)
		res, targets := r.s.MergeDocument(rd)
		switch res.V {
		case ref.Unspec:
			c.Unspec()
			c.Outcome("unspecified")
			return false
		case ref.Reject:
			c.Validated()
			c.NontrivialSub()
			if err != nil {
				c.Outcome("rejected")
				return false
			}
			if strings.Contains(res.Why, "document $match matched nothing") {
				c.Outcome("NO-MATCH-ACCEPTED")
				c.Fail(oracle, "no-match-accepted", wit, map[string]any{"model": res.Why, "documents": docData(r.p)})
				return false
			}
			c.Trans(1)
			if _, oerr := r.p.OutputDocuments(); oerr != nil {
				c.Outcome("rejected-at-output")
				return false
			}
			c.Outcome("SILENTLY-ACCEPTED")
			c.Fail(oracle, "silently-accepted", wit, map[string]any{"model": res.Why, "documents": docData(r.p)})
			return false
		}
		c.Validated()
		if err != nil {
			c.Outcome("WRONGLY-REJECTED")
			c.Fail(oracle, "wrongly-rejected", wit, map[string]any{"error": errStr(err), "model-targets": targets})
			return false
		}
		// bookkeeping for the independence oracle
		body := cd.Body
		if len(r.s.Docs) > before { // appended
			r.tracks = append(r.tracks, &c02Track{initial: core.Clone(body)})
		} else {
			for _, t := range targets {
				r.tracks[t].applied = append(r.tracks[t].applied, core.Clone(body))
			}
			if len(targets) > 1 {
				c.NontrivialSub()
			}
		}
	}
	r.prevI, r.prevM = curI, curM
	// compare the whole stream with the model
	got := docData(r.p)
	want := make([]any, len(r.s.Docs))
	for i, d := range r.s.Docs {
		want[i] = d.Data
	}
	key := core.Canon(got)
	c.State(key + "|" + sharingSignature(r.p))
	if key != core.Canon(want) {
		c.Outcome("WRONG-STREAM")
		c.Fail(oracle, "wrong-stream", wit, map[string]any{"got": got, "want": want, "sharing": sharingSignature(r.p)})
		return false
	}
	c.Outcome("layer-ok")
	return true
}

// independence: every document must hold what it would hold had it been alone.
func (r *c02Run) independence(c *core.Ctx, oracle, wit string) {
	got := docData(r.p)
	if len(got) != len(r.tracks) {
		return
	}
	for i, t := range r.tracks {
		p := newParser()
		base := bkl.NewDocumentWithData("solo", core.Clone(t.initial))
		c.Trans(1)
		if err := p.MergeDocument(base); err != nil {
			return
		}
		prev := []*bkl.Document{base}
		ok := true
		for j, b := range t.applied {
			d := bkl.NewDocumentWithData(fmt.Sprintf("solo%d", j), core.Clone(b))
			d.AddParents(prev...)
			c.Trans(1)
			if err := p.MergeDocument(d); err != nil {
				ok = false
				c.Fail(oracle+"-independence", "alone-rejects", wit, map[string]any{"doc": i, "initial": t.initial, "applied": t.applied, "error": errStr(err)})
				break
			}
			prev = append(prev, d)
		}
		if !ok {
			return
		}
		alone := docData(p)
		if len(alone) != 1 || !core.Equal(alone[0], got[i]) {
			c.Outcome("NOT-INDEPENDENT")
			c.Fail(oracle+"-independence", "differs-from-alone", wit, map[string]any{"doc": i, "in-stream": got[i], "alone": alone, "sharing": sharingSignature(r.p)})
			return
		}
	}
	c.Outcome("independent")
}

// sharingSignature lists which documents share a map or slice node by pointer
// identity (diagnostic, and part of the state key: merge mutates in place, so
// equal values with different aliasing have different futures).
func sharingSignature(p *bkl.Parser) string {
	owner := map[uintptr]int{}
	pairs := map[string]bool{}
	var walk func(doc int, v any)
	walk = func(doc int, v any) {
		switch x := v.(type) {
		case map[string]any:
			ptr := reflect.ValueOf(x).Pointer()
			if o, ok := owner[ptr]; ok && o != doc {
				pairs[fmt.Sprintf("%d~%d", o, doc)] = true
			} else {
				owner[ptr] = doc
			}
			for _, c := range x {
				walk(doc, c)
			}
		case []any:
			if len(x) > 0 {
				ptr := reflect.ValueOf(x).Pointer()
				if o, ok := owner[ptr]; ok && o != doc {
					pairs[fmt.Sprintf("%d~%d", o, doc)] = true
				} else {
					owner[ptr] = doc
				}
			}
			for _, c := range x {
				walk(doc, c)
			}
		}
	}
	for i, d := range p.Documents() {
		walk(i, d.Data)
	}
	if len(pairs) == 0 {
		return "-"
	}
	var ks []string
	for k := range pairs {
		ks = append(ks, k)
	}
	sort.Strings(ks)
	return strings.Join(ks, ",")
}

func c02Wit(base []any, layers [][]c02Doc) string {
	s := core.Canon(base)
	for _, l := range layers {
		s += " <- ["
		for i, d := range l {
			if i > 0 {
				s += " ; "
			}
			s += core.Canon(d.data())
		}
		s += "]"
	}
	return s
}

func c02History(c *core.Ctx, oracle string, base []any, layers [][]c02Doc) {
	r := newC02Run()
	var b []c02Doc
	for _, d := range base {
		b = append(b, c02Doc{Body: d})
	}
	if !r.layer(c, oracle, core.Canon(base), b) {
		return
	}
	for li := range layers {
		wit := c02Wit(base, layers[:li+1])
		if !r.layer(c, oracle, wit, layers[li]) {
			return
		}
		r.independence(c, oracle, wit)
	}
}

// c02FreeHistory: the same as c02History with every patch handed over without parents.
func c02FreeHistory(c *core.Ctx, oracle string, base []any, patches []c02Doc) {
	r := newC02Run()
	r.free = true
	var b []c02Doc
	for _, d := range base {
		b = append(b, c02Doc{Body: d})
	}
	if !r.layer(c, oracle, core.Canon(base), b) {
		return
	}
	for k := range patches {
		wit := "parentless: " + core.Canon(base)
		for _, pd := range patches[:k+1] {
			wit += " <- " + core.Canon(pd.data())
		}
		if !r.layer(c, oracle, wit, patches[k:k+1]) {
			return
		}
	}
}

// ---- targeting space

var c02BaseDocs = []any{
	map[string]any{"a": 1},
	map[string]any{"a": 1},
	map[string]any{"a": 2},
	map[string]any{"a": map[string]any{"x": 1}},
	[]any{1},
}

type c02Selector struct {
	has bool
	val any
}

var c02Selectors = []c02Selector{
	{false, nil},
	{true, map[string]any{}},
	{true, map[string]any{"a": 1}},
	{true, map[string]any{"a": 1, "$invert": true}},
	{true, map[string]any{"a": map[string]any{"x": 1}}},
	{true, map[string]any{"zz": 1}},
	{true, nil},
}

func c02Streams(alphabet []any, maxDocs int) [][]any {
	var out [][]any
	gen.Sequences(len(alphabet), maxDocs, func(seq []int) {
		s := make([]any, len(seq))
		for i, k := range seq {
			s[i] = alphabet[k]
		}
		out = append(out, s)
	})
	return out
}

// targetLayers enumerates every layer of 1..maxDocs documents; body markers
// are unique per (layer, doc) so the set of receivers is directly visible.
func c02TargetLayers(layerNo, maxDocs int) [][]c02Doc {
	var out [][]c02Doc
	gen.Sequences(len(c02Selectors), maxDocs, func(seq []int) {
		l := make([]c02Doc, len(seq))
		for i, k := range seq {
			l[i] = c02Doc{HasSel: c02Selectors[k].has, Sel: c02Selectors[k].val, Body: map[string]any{fmt.Sprintf("m%d%d", layerNo, i): 1}}
		}
		out = append(out, l)
	})
	return out
}

// ---- sharing space

var c02ShareDocs = []any{
	map[string]any{"a": 1},
	map[string]any{"a": 1},
	map[string]any{"a": 2},
	map[string]any{"a": map[string]any{"x": 1}},
	map[string]any{"a": []any{1}},
	map[string]any{"l": []any{map[string]any{"k": 1}, map[string]any{"k": 1}}},
}

var c02ShareBodies = []any{
	map[string]any{"a": map[string]any{"x": 1}},
	map[string]any{"a": map[string]any{"y": 2}},
	map[string]any{"a": map[string]any{"$replace": true, "z": 3}},
	map[string]any{"$replace": true, "n": map[string]any{"q": 1}},
	map[string]any{"l": []any{map[string]any{"k": 2}}},
	map[string]any{"n": map[string]any{"q": 1}},
	map[string]any{"n": map[string]any{"r": 2}},
	map[string]any{"l": []any{map[string]any{"$match": map[string]any{"k": 1}, "$value": map[string]any{"v": 1}}}},
	map[string]any{"l": []any{map[string]any{"$match": map[string]any{}, "w": 2}}},
	map[string]any{"a": "$delete"},
	map[string]any{"a": []any{2}},
	map[string]any{"n": map[string]any{"q": "$delete"}},
	map[string]any{"a": map[string]any{"x": map[string]any{"deep": 1}}},
	map[string]any{"a": map[string]any{"x": map[string]any{"deep2": 2}}},
}

func c02ShareLayers() [][]c02Doc {
	var out [][]c02Doc
	for _, b := range c02ShareBodies {
		out = append(out, []c02Doc{{Body: b}})
		out = append(out, []c02Doc{{HasSel: true, Sel: map[string]any{}, Body: b}})
	}
	return out
}

func buildC02(tier string) *core.Plan {
	thorough := tier == "thorough"
	bases := c02Streams(c02BaseDocs, 3)
	l1 := c02TargetLayers(1, 2)
	l2 := c02TargetLayers(2, 2)
	l3 := c02TargetLayers(3, 2)
	nl := int64(len(l1))

	// targeting: case = (base, first layer); inner loop = further layers
	targeting := core.Space{Name: "targeting", N: int64(len(bases)) * nl,
		Desc: func(i int64) any {
			return map[string]any{"base": bases[i/nl], "layer1": l1[i%nl], "then": "every second layer (thorough: and third)"}
		},
		Run: func(c *core.Ctx, i int64) {
			base, a := bases[i/nl], l1[i%nl]
			c02History(c, "refStream", base, [][]c02Doc{a})
			for _, b := range l2 {
				c02History(c, "refStream", base, [][]c02Doc{a, b})
				if thorough {
					for _, d := range l3 {
						c02History(c, "refStream", base, [][]c02Doc{a, b, d})
					}
				}
			}
		}}
	spaces := []core.Space{targeting}
	if !thorough {
		// quick: a narrow slice with three further layers (2-document bases, one document per layer)
		b2 := c02Streams(c02BaseDocs[:4], 2)
		var two [][]any
		for _, b := range b2 {
			if len(b) == 2 {
				two = append(two, b)
			}
		}
		s1, s2, s3 := c02TargetLayers(1, 1), c02TargetLayers(2, 1), c02TargetLayers(3, 1)
		ns1 := int64(len(s1))
		spaces = append(spaces, core.Space{Name: "targeting-3-layers-narrow", N: int64(len(two)) * ns1,
			Desc: func(i int64) any {
				return map[string]any{"base": two[i/ns1], "layer1": s1[i%ns1], "then": "every 2nd and 3rd single-document layer"}
			},
			Run: func(c *core.Ctx, i int64) {
				base, a := two[i/ns1], s1[i%ns1]
				for _, b := range s2 {
					for _, d := range s3 {
						c02History(c, "refStream", base, [][]c02Doc{a, b, d})
					}
				}
			}})
	}

	if thorough {
		// layers of up to 3 documents, up to 2 layers
		w1 := c02TargetLayers(1, 3)
		w2 := c02TargetLayers(2, 3)
		nw := int64(len(w1))
		spaces = append(spaces, core.Space{Name: "targeting-wide-layers", N: int64(len(bases)) * nw,
			Desc: func(i int64) any {
				return map[string]any{"base": bases[i/nw], "layer1": w1[i%nw], "then": "every second layer of <=3 docs"}
			},
			Run: func(c *core.Ctx, i int64) {
				base, a := bases[i/nw], w1[i%nw]
				if len(a) == 3 {
					c02History(c, "refStream", base, [][]c02Doc{a})
				}
				for _, b := range w2 {
					if len(a) < 3 && len(b) < 3 {
						continue // covered by "targeting"
					}
					c02History(c, "refStream", base, [][]c02Doc{a, b})
				}
			}})
		// bases of 4 documents
		b4 := c02Streams(c02BaseDocs, 4)
		var only4 [][]any
		for _, b := range b4 {
			if len(b) == 4 {
				only4 = append(only4, b)
			}
		}
		spaces = append(spaces, core.Space{Name: "targeting-4doc-bases", N: int64(len(only4)) * nl,
			Desc: func(i int64) any { return map[string]any{"base": only4[i/nl], "layer1": l1[i%nl]} },
			Run: func(c *core.Ctx, i int64) {
				base, a := only4[i/nl], l1[i%nl]
				c02History(c, "refStream", base, [][]c02Doc{a})
				for _, b := range l2 {
					c02History(c, "refStream", base, [][]c02Doc{a, b})
				}
			}})
	}

	// sharing
	sb := c02Streams(c02ShareDocs, 3)
	var shareBases [][]any
	for _, b := range sb {
		if len(b) >= 2 {
			shareBases = append(shareBases, b)
		}
	}
	sl := c02ShareLayers()
	nsl := int64(len(sl))
	// base streams holding EMPTY documents: they are documents of the stream like any other
	{
		eb := [][]any{
			{map[string]any{"a": 1}, nil, map[string]any{"a": 2}},
			{nil, map[string]any{"a": 1}},
			{map[string]any{"a": 1}, nil},
			{nil, nil},
			{nil},
		}
		ne := int64(len(eb))
		spaces = append(spaces, core.Space{Name: "base-streams-with-empty-documents", N: ne * nl,
			Desc: func(i int64) any {
				return map[string]any{"base": eb[i/nl], "layer1": l1[i%nl], "then": "every second layer"}
			},
			Run: func(c *core.Ctx, i int64) {
				base, a := eb[i/nl], l1[i%nl]
				c02History(c, "refStream-empty-docs", base, [][]c02Doc{a})
				for _, b := range l2 {
					c02History(c, "refStream-empty-docs", base, [][]c02Doc{a, b})
				}
			}})
	}
	// the very first documents a parser sees already carry a selector: with nothing to select from,
	// anything but $match: null is an error, not a new document
	{
		firsts := [][]c02Doc{
			{{HasSel: true, Sel: map[string]any{"a": 1}, Body: map[string]any{"b": 2}}},
			{{HasSel: true, Sel: map[string]any{}, Body: map[string]any{"b": 2}}},
			{{HasSel: true, Sel: nil, Body: map[string]any{"a": 1}}},
			{{Body: map[string]any{"a": 1}}, {HasSel: true, Sel: map[string]any{"zz": 1}, Body: map[string]any{"b": 2}}},
			{{Body: map[string]any{"a": 1}}, {HasSel: true, Sel: map[string]any{"a": 1}, Body: map[string]any{"b": 2}}},
			{{HasSel: true, Sel: map[string]any{"a": 1, "$invert": true}, Body: map[string]any{"b": 2}}},
		}
		nf1 := int64(len(firsts))
		spaces = append(spaces, core.Space{Name: "first-documents-carry-a-selector", N: nf1 * nl,
			Desc: func(i int64) any {
				var ds []any
				for _, d := range firsts[i/nl] {
					ds = append(ds, d.data())
				}
				return map[string]any{"first_layer": ds, "layer2": l1[i%nl]}
			},
			Run: func(c *core.Ctx, i int64) {
				c02History(c, "refStream-first-selector", []any{}, [][]c02Doc{firsts[i/nl]})
				c02History(c, "refStream-first-selector", []any{}, [][]c02Doc{firsts[i/nl], l1[i%nl]})
				c02FreeHistory(c, "refStream-first-selector", []any{}, append(append([]c02Doc{}, firsts[i/nl]...), l1[i%nl]...))
			}})
	}
	// parentless patches that change the very keys later patterns look at: which documents a pattern
	// selects is decided on the documents as they are NOW, every time (same pattern used repeatedly)
	{
		fb := [][]any{
			{map[string]any{"a": 1}, map[string]any{"a": 2}},
			{map[string]any{"a": 1}, map[string]any{"a": 1}},
			{map[string]any{"a": 2}, map[string]any{"a": 3}, map[string]any{"a": 1}},
			{map[string]any{"a": 1, "k": 0}},
			{map[string]any{"a": 1, "k": 0}, map[string]any{"a": 1, "k": 9}, map[string]any{"a": 2, "k": 0}},
		}
		var fp []c02Doc
		for _, sel := range []any{map[string]any{"a": 1}, map[string]any{"a": 2}, map[string]any{},
			// inverted patterns over two keys: NOT(all keys match), so a document matching only one of them is selected
			map[string]any{"a": 1, "k": 0, "$invert": true}, map[string]any{"a": 1, "k": 9, "$invert": true}, map[string]any{"a": 2, "$invert": true}} {
			for _, body := range []any{map[string]any{"a": 1}, map[string]any{"a": 2}, map[string]any{"a": 3}, map[string]any{"y": 1}, map[string]any{"y": 2}} {
				fp = append(fp, c02Doc{HasSel: true, Sel: sel, Body: body})
			}
		}
		fp = append(fp, c02Doc{HasSel: true, Sel: nil, Body: map[string]any{"a": 1}})
		nfp := int64(len(fp))
		spaces = append(spaces, core.Space{Name: "parentless-patches-changing-matched-keys", N: int64(len(fb)) * nfp * nfp,
			Desc: func(i int64) any {
				return map[string]any{"base": fb[i/(nfp*nfp)], "patch1": fp[(i/nfp)%nfp].data(), "patch2": fp[i%nfp].data(), "then": "every third patch"}
			},
			Run: func(c *core.Ctx, i int64) {
				base, p1, p2 := fb[i/(nfp*nfp)], fp[(i/nfp)%nfp], fp[i%nfp]
				c02FreeHistory(c, "refStream-parentless", base, []c02Doc{p1, p2})
				for _, p3 := range fp {
					c02FreeHistory(c, "refStream-parentless", base, []c02Doc{p1, p2, p3})
				}
			}})
	}
	spaces = append(spaces, core.Space{Name: "sharing", N: int64(len(shareBases)) * nsl,
		Desc: func(i int64) any {
			return map[string]any{"base": shareBases[i/nsl], "layer1": sl[i%nsl], "then": "every 2nd and 3rd layer"}
		},
		Run: func(c *core.Ctx, i int64) {
			base, a := shareBases[i/nsl], sl[i%nsl]
			c02History(c, "refStream-sharing", base, [][]c02Doc{a})
			for _, b := range sl {
				c02History(c, "refStream-sharing", base, [][]c02Doc{a, b})
				if thorough || len(base) == 2 {
					for _, d := range sl {
						c02History(c, "refStream-sharing", base, [][]c02Doc{a, b, d})
					}
				}
			}
		}})

	// empty containers put into several documents by one layer, then filled in ONE of them
	{
		eb := [][]any{
			{map[string]any{"id": 1, "e": 0}, map[string]any{"id": 2, "e": 0}},
			{map[string]any{"id": 1}, map[string]any{"id": 2}, map[string]any{"id": 1}},
			{map[string]any{"id": 1, "e": nil}, map[string]any{"id": 2, "e": nil}},
		}
		empties := []any{map[string]any{"e": map[string]any{}}, map[string]any{"e": []any{}}, map[string]any{"e": map[string]any{"in": map[string]any{}}}, map[string]any{"e": []any{[]any{}}},
			map[string]any{"e": map[string]any{}, "f": []any{}}}
		fills := []c02Doc{
			{HasSel: true, Sel: map[string]any{"id": 1}, Body: map[string]any{"e": map[string]any{"x": 1}}},
			{HasSel: true, Sel: map[string]any{"id": 2}, Body: map[string]any{"e": []any{1}}},
			{HasSel: true, Sel: map[string]any{"id": 1}, Body: map[string]any{"e": map[string]any{"in": map[string]any{"y": 2}}}},
			{HasSel: true, Sel: map[string]any{"id": 2}, Body: map[string]any{"e": []any{[]any{3}}, "f": []any{4}}},
			{HasSel: true, Sel: map[string]any{"id": 1, "$invert": true}, Body: map[string]any{"e": map[string]any{"z": 3}}},
		}
		ne, nf := int64(len(empties)), int64(len(fills))
		spaces = append(spaces, core.Space{Name: "empty-containers-shared-then-filled-in-one-document", N: int64(len(eb)) * ne * nf,
			Desc: func(i int64) any {
				return map[string]any{"base": eb[i/(ne*nf)], "layer1": empties[(i/nf)%ne], "layer2": fills[i%nf].data()}
			},
			Run: func(c *core.Ctx, i int64) {
				base, e, f := eb[i/(ne*nf)], empties[(i/nf)%ne], fills[i%nf]
				c02History(c, "refStream-empty-containers", base, [][]c02Doc{{{Body: e}}, {f}})
				c02History(c, "refStream-empty-containers", base, [][]c02Doc{{{HasSel: true, Sel: map[string]any{}, Body: e}}, {f}, {fills[(i+1)%nf]}})
			}})
	}

	// the same histories through files: a.<ext> (base stream), a.b.<ext>, a.b.c.<ext>
	fileBases := c02Streams(c02BaseDocs[:4], 2)
	fl1 := c02TargetLayers(1, 2)
	nfl := int64(len(fl1))
	exts := []string{"yaml", "json"}
	spaces = append(spaces, core.Space{Name: "files", N: int64(len(fileBases)) * nfl * int64(len(exts)),
		Desc: func(i int64) any {
			e := exts[i%int64(len(exts))]
			j := i / int64(len(exts))
			return map[string]any{"ext": e, "base": fileBases[j/nfl], "layer1": fl1[j%nfl]}
		},
		Run: func(c *core.Ctx, i int64) {
			e := exts[i%int64(len(exts))]
			j := i / int64(len(exts))
			base, a := fileBases[j/nfl], fl1[j%nfl]
			c02Files(c, e, base, [][]c02Doc{a})
			if thorough {
				for _, b := range l2 {
					c02Files(c, e, base, [][]c02Doc{a, b})
				}
			} else if len(a) == 1 {
				for _, b := range l2[:7] {
					c02Files(c, e, base, [][]c02Doc{a, b})
				}
			}
		}})

	// two chains with the same file names in different directories merged into one parser:
	// the second chain must only ever touch its own documents
	tcBases := c02Streams(c02BaseDocs[:4], 2)
	ntb := int64(len(tcBases))
	spaces = append(spaces, core.Space{Name: "files-two-chains-same-names", N: ntb * ntb,
		Desc: func(i int64) any {
			return map[string]any{"one/svc.yaml": tcBases[i/ntb], "two/svc.yaml": tcBases[i%ntb], "two/svc.prod.yaml": "every layer of <=2 documents"}
		},
		Run: func(c *core.Ctx, i int64) {
			b1, b2 := tcBases[i/ntb], tcBases[i%ntb]
			for li, l2 := range fl1 {
				if !thorough && li%4 != int(i%4) {
					continue
				}
				c02TwoChains(c, b1, b2, l2)
			}
		}})
	// three-document bases through files (the parent file's document slice has spare capacity)
	fb3 := c02Streams(c02BaseDocs[:3], 3)
	var only3 [][]any
	for _, b := range fb3 {
		if len(b) == 3 {
			only3 = append(only3, b)
		}
	}
	n3 := int64(len(only3))
	spaces = append(spaces, core.Space{Name: "files-3doc-bases", N: n3 * nfl,
		Desc: func(i int64) any {
			return map[string]any{"base": only3[i/nfl], "layer1": fl1[i%nfl], "then": "7 second layers"}
		},
		Run: func(c *core.Ctx, i int64) {
			base, a := only3[i/nfl], fl1[i%nfl]
			c02Files(c, "yaml", base, [][]c02Doc{a})
			for _, b := range l2[:7] {
				c02Files(c, "yaml", base, [][]c02Doc{a, b})
			}
		}})

	return &core.Plan{
		Spaces: spaces,
		Rule: "every history = base stream x sequence of layers (each layer a list of child documents with a document-level selector and a unique marker body); " +
			"distinct by construction; non-trivial = a patch fanned out to more than one document or the model rejected",
		Assumptions: []string{"refStream/refMerge is the targeting and merge oracle; independence is differential (same patches applied to a parser holding only that document)",
			"after a rejected layer the parser state is unspecified and the history ends"},
		Bounds: map[string]any{"base_docs": 3, "layers": map[string]any{"quick": 2, "thorough": 3}, "docs_per_layer": 2, "thorough_slices": "3 layers x <=2 docs x bases<=3; 2 layers x <=3 docs x bases<=3; 4-doc bases x 2 layers x <=2 docs",
			"sharing_bases": len(shareBases), "sharing_layer_menu": len(sl), "sharing_depth": 3},
	}
}

// c02Files replays a history through real files and MergeFileLayers.
func c02Files(c *core.Ctx, ext string, base []any, layers [][]c02Doc) {
	dir := scratchDir()
	defer os.RemoveAll(dir)
	f, _ := bkl.GetFormat(ext)
	name := "a"
	write := func(docs []any) bool {
		b, err := f.MarshalStream(docs)
		if err != nil {
			return false
		}
		return os.WriteFile(filepath.Join(dir, name+"."+ext), b, 0o644) == nil
	}
	if !write(base) {
		return
	}
	// model
	s := &ref.Stream{}
	var prev []*ref.Doc
	n := 0
	verdict := ref.Accept
	apply := func(docs []any) {
		var cur []*ref.Doc
		for _, d := range docs {
			rd := &ref.Doc{ID: fmt.Sprintf("F%d", n), Data: core.Clone(d), Parents: append([]*ref.Doc{}, prev...)}
			n++
			cur = append(cur, rd)
			if verdict == ref.Accept {
				res, _ := s.MergeDocument(rd)
				verdict = res.V
			}
		}
		prev = cur
	}
	apply(base)
	for _, l := range layers {
		name += ".l"
		var docs []any
		for _, d := range l {
			docs = append(docs, d.data())
		}
		if !write(docs) {
			return
		}
		apply(docs)
	}
	c.Eval()
	c.Trans(1 + len(layers))
	p := newParser()
	err := p.MergeFileLayers(filepath.Join(dir, name+"."+ext))
	wit := ext + ": " + c02Wit(base, layers)
	switch verdict {
	case ref.Unspec:
		c.Unspec()
		return
	case ref.Reject:
		c.Validated()
		if err == nil {
			if _, oerr := p.OutputDocuments(); oerr == nil {
				c.Fail("refStream-files", "silently-accepted", wit, map[string]any{"documents": docData(p)})
			}
		}
		c.Outcome("files-rejected")
		return
	}
	c.Validated()
	if err != nil {
		c.Fail("refStream-files", "wrongly-rejected", wit, map[string]any{"error": errStr(err)})
		return
	}
	got := docData(p)
	want := make([]any, len(s.Docs))
	for i, d := range s.Docs {
		want[i] = d.Data
	}
	c.State("files|" + core.Canon(got))
	if !core.Equal(got, want) {
		c.Fail("refStream-files", "wrong-stream", wit, map[string]any{"got": got, "want": want})
		return
	}
	c.Outcome("files-ok")
}

// c02TwoChains: one/svc.yaml <- one/svc.prod.yaml, then two/svc.yaml <- two/svc.prod.yaml into the same parser.
func c02TwoChains(c *core.Ctx, b1, b2 []any, layer2 []c02Doc) {
	dir := scratchDir()
	defer os.RemoveAll(dir)
	f, _ := bkl.GetFormat("yaml")
	write := func(sub, name string, docs []any) bool {
		os.MkdirAll(filepath.Join(dir, sub), 0o755)
		b, err := f.MarshalStream(docs)
		if err != nil {
			return false
		}
		return os.WriteFile(filepath.Join(dir, sub, name), b, 0o644) == nil
	}
	l1 := []any{map[string]any{"one": 1}}
	var l2 []any
	for _, d := range layer2 {
		l2 = append(l2, d.data())
	}
	if !write("one", "svc.yaml", b1) || !write("one", "svc.prod.yaml", l1) || !write("two", "svc.yaml", b2) || !write("two", "svc.prod.yaml", l2) {
		return
	}
	s := &ref.Stream{}
	n := 0
	verdict := ref.Accept
	chain := func(base, layer []any) {
		var prev []*ref.Doc
		for _, docs := range [][]any{base, layer} {
			var cur []*ref.Doc
			for _, d := range docs {
				rd := &ref.Doc{ID: fmt.Sprintf("T%d", n), Data: core.Clone(d), Parents: append([]*ref.Doc{}, prev...)}
				n++
				cur = append(cur, rd)
				if verdict == ref.Accept {
					res, _ := s.MergeDocument(rd)
					verdict = res.V
				}
			}
			prev = cur
		}
	}
	chain(b1, l1)
	chain(b2, l2)
	c.Eval()
	c.Trans(4)
	p := newParser()
	err := p.MergeFileLayers(filepath.Join(dir, "one", "svc.prod.yaml"))
	if err == nil {
		err = p.MergeFileLayers(filepath.Join(dir, "two", "svc.prod.yaml"))
	}
	wit := "two chains: " + core.Canon(b1) + " | " + core.Canon(b2) + " <- " + core.Canon(l2)
	switch verdict {
	case ref.Unspec:
		c.Unspec()
		return
	case ref.Reject:
		c.Validated()
		if err == nil {
			if _, oerr := p.OutputDocuments(); oerr == nil {
				c.Fail("refStream-two-chains", "silently-accepted", wit, map[string]any{"documents": docData(p)})
			}
		}
		c.Outcome("two-chains-rejected")
		return
	}
	c.Validated()
	c.NontrivialSub()
	if err != nil {
		c.Fail("refStream-two-chains", "wrongly-rejected", wit, map[string]any{"error": errStr(err)})
		return
	}
	got := docData(p)
	want := make([]any, len(s.Docs))
	for i, d := range s.Docs {
		want[i] = d.Data
	}
	if !core.Equal(got, want) {
		c.Outcome("CHAINS-INTERFERE")
		c.Fail("refStream-two-chains", "wrong-stream", wit, map[string]any{"got": got, "want": want})
		return
	}
	c.Outcome("two-chains-ok")
}
