package checks

import (
	"fmt"
	"os"
	"strings"

	"verif/core"
)

// C13 — interpolation and $env substitute exactly the referenced values.

func init() {
	core.Register(&core.Check{ID: "C13", Title: "interpolation and $env", Build: buildC13})
}

var c13Segments = []string{"", "x", "}", ":", "é ", "a b", "}}", "\"", "\"w\"", "100% %d%v"}
var c13EnvValues = []string{"v", "", "123", "true", "null", "a b", "a$b", "1.50", "~", "[x]", "k=v", "dGVzdA==", "=x", "a:b", "{i}", "a\nb", "a$$b", "$x", " v ", "   ", "\tv\n", "%d"}

type c13Ref struct {
	text string // inside the braces
	val  string // expected text ("" with err=true: must fail)
	err  bool
	env  bool
	rep  bool
}

func c13Refs() []c13Ref {
	return []c13Ref{
		{text: "i", val: "7"},
		{text: "s", val: "str"},
		{text: "c.d", val: "deep"},
		{text: "f", val: "1.5"},
		{text: "b", val: "true"},
		{text: "$env:V", env: true},
		{text: "$env:U", err: true},
		{text: "nope", err: true},
		{text: "c.nope", err: true},
		{text: "s.nope", err: true},
		{text: "c.d.e", err: true},
		{text: "$repeat", rep: true},
	}
}

func c13Base() map[string]any {
	return map[string]any{"i": 7, "s": "str", "c": map[string]any{"d": "deep"}, "f": 1.5, "b": true}
}

// c13Eval evaluates doc under the controlled environment (V=envVal, U unset).
func c13Eval(doc any, envVal string) ([]any, error) {
	os.Setenv("V", envVal)
	os.Unsetenv("U")
	return evalTree(doc)
}

func c13Template(c *core.Ctx, segs []int, refs []int, envVal string) {
	all := c13Refs()
	body := c13Segments[segs[0]]
	want := c13Segments[segs[0]]
	mustErr, usesRepeat, usesEnv := false, false, false
	for k, r := range refs {
		ref := all[r]
		body += "{" + ref.text + "}" + c13Segments[segs[k+1]]
		switch {
		case ref.err:
			mustErr = true
		case ref.env:
			usesEnv = true
			want += envVal + c13Segments[segs[k+1]]
		case ref.rep:
			usesRepeat = true
			want += "\x00" + c13Segments[segs[k+1]]
		default:
			want += ref.val + c13Segments[segs[k+1]]
		}
	}
	tmpl := `$"` + body + `"`
	unspec := usesEnv && (strings.Contains(envVal, "$$") && false)
	_ = unspec
	envDirective := usesEnv && strings.HasPrefix(envVal, "$") && len(refs) > 0 && segs[0] == 0 && refs[0] == 5

	for _, asKey := range []bool{false, true} {
		doc := c13Base()
		var wantDocs []any
		build := func(idx int) map[string]any {
			w := c13Base()
			exp := strings.ReplaceAll(want, "\x00", fmt.Sprint(idx))
			if asKey {
				w["k"] = map[string]any{exp: 1}
			} else {
				w["t"] = exp
			}
			return w
		}
		if usesRepeat {
			doc["$repeat"] = 2
			wantDocs = []any{build(0), build(1)}
		} else {
			wantDocs = []any{build(0)}
		}
		if asKey {
			doc["k"] = map[string]any{tmpl: 1}
		} else {
			doc["t"] = tmpl
		}
		c.Eval()
		c.Trans(2)
		got, err := c13Eval(doc, envVal)
		wit := fmt.Sprintf("%s key=%v V=%q", tmpl, asKey, envVal)
		if envDirective {
			// the substituted text itself is directive-shaped: either an error or the literal is acceptable
			c.Unspec()
			continue
		}
		c.Validated()
		c.NontrivialSub()
		if mustErr {
			if err == nil {
				c.Outcome("MISSING-REF-ACCEPTED")
				c.Fail("refInterp", "missing-reference-accepted", wit, map[string]any{"output": got})
				return
			}
			c.Outcome("missing-rejected")
			continue
		}
		if err != nil {
			c.Outcome("WRONGLY-REJECTED")
			c.Fail("refInterp", "rejected", wit, map[string]any{"error": errStr(err), "want": wantDocs})
			return
		}
		c.State(core.Canon(got))
		if !core.Equal(got, wantDocs) {
			c.Outcome("WRONG-SUBSTITUTION")
			if usesEnv && strings.Contains(envVal, "$$") {
				// is it exactly "the substituted text was unescaped once more"?
				var un []any
				for _, w := range wantDocs {
					un = append(un, c13Unescape(w))
				}
				if core.Equal(got, un) {
					c.Fail("refInterp", "env-value-unescaped", "env-unescape:V="+envVal, map[string]any{"template": wit, "got": got, "want": wantDocs})
					return
				}
			}
			c.Fail("refInterp", "wrong-substitution", wit, map[string]any{"got": got, "want": wantDocs})
			return
		}
		c.Outcome("equal")
	}
}

func buildC13(tier string) *core.Plan {
	nseg := int64(len(c13Segments))
	nref := int64(len(c13Refs()))
	// templates with k references: nseg^(k+1) * nref^k
	count := func(k int, segN, refN int64) int64 {
		n := segN
		for i := 0; i < k; i++ {
			n *= segN * refN
		}
		return n
	}
	decode := func(i int64, k int, segN, refN int64) (segs, refs []int) {
		segs = make([]int, k+1)
		refs = make([]int, k)
		for j := 0; j <= k; j++ {
			segs[j] = int(i % segN)
			i /= segN
		}
		for j := 0; j < k; j++ {
			refs[j] = int(i % refN)
			i /= refN
		}
		return
	}
	nenv := int64(len(c13EnvValues))
	mk := func(k int, segN, refN int64, envAll bool) core.Space {
		n := count(k, segN, refN)
		return core.Space{Name: fmt.Sprintf("templates-%d-refs", k), N: n,
			Desc: func(i int64) any {
				s, r := decode(i, k, segN, refN)
				return map[string]any{"segments": s, "refs": r, "env_values": "all"}
			},
			Run: func(c *core.Ctx, i int64) {
				segs, refs := decode(i, k, segN, refN)
				usesEnv := false
				for _, r := range refs {
					if r == 5 {
						usesEnv = true
					}
				}
				if usesEnv && envAll {
					for e := int64(0); e < nenv; e++ {
						c13Template(c, segs, refs, c13EnvValues[e])
					}
				} else {
					c13Template(c, segs, refs, "v")
				}
			}}
	}
	spaces := []core.Space{mk(0, nseg, nref, true), mk(1, nseg, nref, true), mk(2, nseg, nref, true)}
	if tier == "thorough" {
		spaces = append(spaces, mk(3, nseg, nref, false), mk(4, 3, nref, false))
	} else {
		spaces = append(spaces, mk(3, 2, 7, false))
	}

	// whole-string $env in values and keys
	whole := core.Space{Name: "whole-string-env", N: nenv,
		Desc: func(i int64) any { return map[string]any{"V": c13EnvValues[i]} },
		Run: func(c *core.Ctx, i int64) {
			ev := c13EnvValues[i]
			type tc struct {
				name string
				doc  any
				want any
				err  bool
			}
			cases := []tc{
				{"value", map[string]any{"t": "$env:V", "n": 1}, map[string]any{"t": ev, "n": 1}, false},
				{"key", map[string]any{"k": map[string]any{"$env:V": 1}}, map[string]any{"k": map[string]any{ev: 1}}, false},
				{"list", []any{"$env:V", "x"}, []any{ev, "x"}, false},
				{"unset-value", map[string]any{"t": "$env:U"}, nil, true},
				{"unset-key", map[string]any{"$env:U": 1}, nil, true},
				{"empty-name", map[string]any{"t": "$env:"}, nil, true},
				{"wrong-case", map[string]any{"t": "$env:v"}, nil, true},
			}
			for _, t := range cases {
				c.Eval()
				c.Trans(2)
				got, err := c13Eval(t.doc, ev)
				wit := fmt.Sprintf("whole %s V=%q", t.name, ev)
				if !t.err && strings.HasPrefix(ev, "$") {
					c.Unspec()
					continue
				}
				c.Validated()
				c.NontrivialSub()
				if t.err {
					if err == nil {
						c.Fail("env", "unset-variable-accepted", wit, map[string]any{"output": got})
						return
					}
					c.Outcome("unset-rejected")
					continue
				}
				if err != nil {
					c.Fail("env", "rejected", wit, errStr(err))
					return
				}
				if !core.Equal(got, []any{t.want}) {
					if strings.Contains(ev, "$$") && core.Equal(got, []any{c13Unescape(t.want)}) {
						c.Fail("env", "env-value-unescaped", "env-unescape:V="+ev, map[string]any{"case": wit, "got": got, "want": t.want})
						return
					}
					c.Fail("env", "wrong-value", wit, map[string]any{"got": got, "want": t.want})
					return
				}
				c.Outcome("env-equal")
			}
		}}
	spaces = append(spaces, whole)

	// referenced scalars of every kind and awkward content: the substituted text is Go's %v of the value
	kinds := []any{-3, 0, 2147483648, 1.5, 2.0, 1e21, 1e-7, -0.5, true, false, "", " pad ", "multi\nline", "\n", "tab\t", strings.Repeat("long", 5000), "quo\"te", "{brace}", "x}y", "a.b", "é"}
	forms := []struct{ pre, mid, post string }{{"", "", ""}, {"a", "", "b"}, {" ", "-", "\n"}}
	nkd := int64(len(kinds))
	spaces = append(spaces, core.Space{Name: "referenced-scalar-kinds", N: nkd * int64(len(forms)),
		Desc: func(i int64) any { return map[string]any{"value": clipAny(kinds[i%nkd]), "form": forms[i/nkd]} },
		Run: func(c *core.Ctx, i int64) {
			val, f := kinds[i%nkd], forms[i/nkd]
			text := fmt.Sprint(val)
			for _, twice := range []bool{false, true} {
				tmpl, want := `$"`+f.pre+"{v}"+f.post+`"`, f.pre+text+f.post
				if twice {
					tmpl, want = `$"`+f.pre+"{v}"+f.mid+"{n.v}"+f.post+`"`, f.pre+text+f.mid+text+f.post
				}
				for _, asKey := range []bool{false, true} {
					doc := map[string]any{"v": val, "n": map[string]any{"v": val}}
					wantDoc := map[string]any{"v": val, "n": map[string]any{"v": val}}
					if asKey {
						doc["k"] = map[string]any{tmpl: 1}
						wantDoc["k"] = map[string]any{want: 1}
					} else {
						doc["t"] = tmpl
						wantDoc["t"] = want
					}
					c.Eval()
					c.Trans(2)
					got, err := c13Eval(doc, "v")
					wit := fmt.Sprintf("kinds: %s with v=%s key=%v", clipAny(tmpl), clipAny(val), asKey)
					c.Validated()
					c.NontrivialSub()
					if err != nil {
						c.Outcome("KIND-REJECTED")
						c.Fail("refInterp", "rejected", wit, errStr(err))
						return
					}
					if !core.Equal(got, []any{wantDoc}) {
						c.Outcome("KIND-WRONG-TEXT")
						c.Fail("refInterp", "wrong-text", wit, map[string]any{"got": clipAny(got), "want": clipAny(want)})
						return
					}
					c.Outcome("kind-equal")
				}
			}
		}})

	return &core.Plan{
		Spaces: spaces,
		Rule: "every template of k+1 $-free literal segments (10 forms incl. percent signs, double quotes next to the delimiters, '}', ':', unicode) alternating with k references (12 forms: int/string/nested/float/bool paths, $env:V, unset $env:U, four missing paths incl. paths continuing below a scalar, $repeat) for k = 0..2 in full, k = 3 over the first 2 segments x 7 references (thorough: k = 3 in full, k = 4 over 3 segments x all references), " +
			"as a value and as a key, under every one of 22 environment values (incl. leading/trailing white space); whole-string $env in values, keys and list entries",
		Assumptions: []string{"refInterp: the result is the concatenation of the literal segments and Go %v of the referenced scalars; $env values are strings",
			"an environment value that is itself directive-shaped ($x) at the start of the result is not judged (C07 forbids it in output, C13 wants the literal)",
			"the worker process owns its environment (one evaluation at a time)"},
		Bounds: map[string]any{"segments": c13Segments, "env_values": c13EnvValues},
	}
}

// c13Unescape applies the $$ -> $ unescape to every key and string.
func c13Unescape(v any) any {
	switch x := v.(type) {
	case string:
		return strings.ReplaceAll(x, "$$", "$")
	case map[string]any:
		m := map[string]any{}
		for k, c := range x {
			m[strings.ReplaceAll(k, "$$", "$")] = c13Unescape(c)
		}
		return m
	case []any:
		l := make([]any, len(x))
		for i, c := range x {
			l[i] = c13Unescape(c)
		}
		return l
	default:
		return v
	}
}

// clipAny renders a value for a witness, shortened.
func clipAny(v any) string {
	t := core.JSON(v)
	if len(t) > 120 {
		return t[:60] + "..." + t[len(t)-40:]
	}
	return t
}
