//go:build instr

package checks

import (
	"bytes"
	"encoding/json"
	"fmt"
	"os"
	"os/exec"
	"path/filepath"
	"sort"
	"strings"
	"time"

	"github.com/gopatchy/bkl"
	"verif/core"
	"verif/explore"
	"verif/gen"
)

// C08 — every invocation terminates with complete output or a reported error.

func init() {
	core.Register(&core.Check{ID: "C08", Title: "termination with output or error", Build: buildC08})
}

const c08Budget = 100_000_000

// c08Lib runs body (a library evaluation) under the deterministic step budget
// and classifies the result. Panics propagate to the worker's recover, which
// records them as violations with the bkl frame as witness.
func c08Lib(c *core.Ctx, wit string, desc any, body func() ([]byte, error)) (class string, out []byte) {
	return c08LibBudget(c, c08Budget, wit, desc, body)
}

// c08FileBudget bounds evaluations whose steps are dominated by file loading (a $parent
// chain of <= 3 files needs a few thousand steps; every step of a runaway loader costs a file read).
const c08FileBudget = 200_000

// c08ConfirmedHangs counts CLI hangs this worker has confirmed with the long limit; once a
// tree has shown two, further candidates are reported after the short limit alone.
var c08ConfirmedHangs int

func c08LibBudget(c *core.Ctx, budget int64, wit string, desc any, body func() ([]byte, error)) (class string, out []byte) {
	c.Eval()
	c.Trans(1)
	var err error
	exceeded, used := explore.WithBudget(budget, func() {
		out, err = body()
	})
	c.Extra("ticks", used)
	if exceeded {
		c.Outcome("STEP-BUDGET-EXCEEDED")
		c.Fail("terminates", "step-budget-exceeded", wit, map[string]any{"budget": budget, "case": desc})
		c.Expensive()
		return "budget", nil
	}
	if err != nil {
		if out != nil {
			c.Fail("output-xor-error", "bytes-and-error", wit, map[string]any{"error": errStr(err), "bytes": string(out)})
		}
		c.Outcome("error")
		return "error", nil
	}
	c.Outcome("output")
	c.State(string(out))
	return "ok", out
}

var c08Dir string

func c08Scratch() string {
	if c08Dir == "" {
		c08Dir = filepath.Join(core.WorkDir(), "fs", fmt.Sprintf("c08-%s-%d", os.Getenv("VMC_WORKER"), os.Getpid()))
		os.MkdirAll(c08Dir, 0o755)
	}
	return c08Dir
}

func c08EvalFile(path string) ([]byte, error) {
	p := newParser()
	if err := p.MergeFileLayers(path); err != nil {
		return nil, err
	}
	return p.Output("json")
}

var c08Alphabet = []byte("{}[]\":,$a1= \n")

func c08ByteString(i int64, maxLen int) []byte {
	n := int64(len(c08Alphabet))
	p := int64(1)
	for l := 0; l <= maxLen; l++ {
		if i < p {
			s := make([]byte, l)
			for k := l - 1; k >= 0; k-- {
				s[k] = c08Alphabet[i%n]
				i /= n
			}
			return s
		}
		i -= p
		p *= n
	}
	return nil
}

func c08CountStrings(maxLen int) int64 {
	n := int64(len(c08Alphabet))
	var total, p int64 = 0, 1
	for l := 0; l <= maxLen; l++ {
		total += p
		p *= n
	}
	return total
}

// ---- structural documents with directives at every position

var c08Args = []any{nil, true, 1, "a", "a.b", []any{}, []any{"a"}, map[string]any{}, map[string]any{"a": 1}, "$merge:a", `$"{a}"`, 2.5, "json", "$repeat", -1, 0, map[string]any{"x": -1, "y": 2}}
var c08DirKeys = []string{"$merge", "$replace", "$encode", "$decode", "$value", "$repeat", "$output", "$match", "$delete", "$invert", "$parent", "$path",
	"$merge:a", "$replace:a", `$"{a}"`, "$env:HOME", "$required", "$bogus", "$"}
var c08DirStrings = []any{"$merge:a", "$merge:", "$merge:a.b", "$replace:a", "$replace:[a]", "$merge:[{a: 1}, a]", `$"{a}"`, `$"{b}"`, `$"{"`, `$"{}"`, `$"{$repeat}"`,
	"$env:HOME", "$env:", "$repeat", "$required", "$delete", "$replace", "$output", "$bogus", "$merge:[", "$merge:{", "$merge:*x", "$", "$$", "$ ", "$é", "$:"}

// c08Inject returns every document obtained from base by one injection.
func c08Inject(base any) []any {
	var out []any
	var paths [][]any
	core.Walk(base, nil, func(p []any, v any) { paths = append(paths, append([]any{}, p...)) })
	for _, p := range paths {
		node := getAt(base, p)
		switch x := node.(type) {
		case map[string]any:
			// add a directive key with every argument
			for _, k := range c08DirKeys {
				if _, has := x[k]; has {
					continue
				}
				for _, a := range c08Args {
					m := core.Clone(x).(map[string]any)
					m[k] = core.Clone(a)
					out = append(out, setAt(base, p, m))
				}
			}
		case []any:
			// add a marker entry / directive string entry
			for _, k := range c08DirKeys[:12] {
				for _, a := range c08Args {
					l := append(core.Clone(x).([]any), map[string]any{k: core.Clone(a)})
					out = append(out, setAt(base, p, l))
				}
			}
			for _, s := range c08DirStrings {
				l := append(core.Clone(x).([]any), s)
				out = append(out, setAt(base, p, l))
			}
		default:
			if len(p) == 0 {
				continue
			}
			for _, s := range c08DirStrings {
				out = append(out, setAt(base, p, s))
			}
		}
	}
	return out
}

func c08EvalLayers(layers [][]any) ([]byte, error) {
	p := newParser()
	var prev []*bkl.Document
	n := 0
	for _, docs := range layers {
		var cur []*bkl.Document
		for _, d := range docs {
			doc := bkl.NewDocumentWithData(fmt.Sprintf("d%d", n), core.Clone(d))
			n++
			doc.AddParents(prev...)
			if err := p.MergeDocument(doc); err != nil {
				return nil, err
			}
			cur = append(cur, doc)
		}
		prev = cur
	}
	return p.Output("json")
}

// ---- reference graphs

var c08RefKeys = []string{"a", "b", "c"}

func c08RefValues() (vals []any, whole []string) {
	// plain values
	vals = append(vals, 1, map[string]any{"x": 1})
	whole = append(whole, "", "")
	paths := []string{"a", "b", "c", "a.x", "b.x"}
	for _, p := range paths {
		top := strings.Split(p, ".")[0]
		w := ""
		if p == top {
			w = top
		}
		add := func(v any, isWhole bool) {
			vals = append(vals, v)
			if isWhole {
				whole = append(whole, w)
			} else {
				whole = append(whole, "")
			}
		}
		add("$merge:"+p, w != "")
		add("$replace:"+p, w != "")
		add(map[string]any{"$merge": p}, w != "")
		add(map[string]any{"$replace": p}, w != "")
		add(map[string]any{"$merge": p, "x": 1}, false)
		add(map[string]any{"x": "$merge:" + p}, false)
		add([]any{map[string]any{"$merge": p}}, false)
		add(`$"{`+p+`}"`, false)
		add(map[string]any{"x": map[string]any{"$replace": p}}, false)
	}
	// root references (map form only)
	vals = append(vals, map[string]any{"$merge": []any{}}, map[string]any{"$replace": []any{}}, map[string]any{"y": map[string]any{"$merge": []any{}}})
	whole = append(whole, "*root", "*root", "")
	return
}

// c08PureCycle: when every value on a path of whole-value references leads
// back to itself (or to the root, which contains the host), evaluation must
// report an error.
func c08PureCycle(keys []string, whole []string) bool {
	next := map[string]string{}
	for i, k := range keys {
		next[k] = whole[i]
	}
	for _, k := range keys {
		seen := map[string]bool{}
		cur := k
		for {
			t, ok := next[cur]
			if !ok || t == "" {
				break
			}
			if t == "*root" {
				return true
			}
			if seen[t] || t == k {
				return true
			}
			seen[t] = true
			cur = t
		}
	}
	return false
}

var c08YAMLTexts = []string{
	"a: &x [*x]\n",
	"a: &x {b: *x}\n",
	"a: &x\n  - 1\n  - *x\n",
	"&r a: *r\n",
	"a: &x 1\nb: *x\nc: [*x, *x]\n",
	"x: &x {a: 1}\ny:\n  <<: *x\n  <<: *x\n",
	"x: &x {<<: *x}\n",
	"x: &x\n  <<: [*x]\n",
	"a: *nope\n",
	"a: !!binary x\n",
	"? [1, 2]\n: 3\n",
	"1: 2\n",
	"a: &x {b: &y {c: *x, d: *y}}\n",
	"---\n---\n---\n",
	"a: 1\n---\n$match: {a: 1}\nb: $merge:a\n---\n$match: {b: 1}\nc: 2\n",
	"$parent: x\n",
	"$parent: [x]\n---\n$parent: false\n",
	"$repeat: 3\n$output: true\na: {$repeat: 2, $output: true, v: $repeat}\n",
	"a: $\"{a}\"\n",
	"a: $\"{b}\"\nb: $\"{a}\"\n",
	"a: $\"{b}\"\nb: $\"{c}\"\nc: $\"{a}\"\n",
	"k: $\"{k}{k}\"\n",
	"$\"{a}\": 1\na: $\"{a}\"\n",
	"a: $merge:b\nb: $merge:c\nc: $merge:a\n",
	"c:\n  a: {$merge: c}\n  c: {$merge: c, a: q}\n",
	"a: {a: 1, $merge: []}\n",
	"$merge:a: 1\na: 5\n",
	"$replace:a: 1\na: x\n",
	"$\"{a}\": 1\na: 5\n",
	"$\"{a}\": 1\na: {b: 1}\n",
	"m:\n  $\"{a}\": {$repeat: 2, v: 1}\na: {b: 1}\n",
	"m:\n  $merge:a: {$repeat: 2, v: 1}\na: 7\n",
	"$env:HOME: 1\n",
	"a: {$encode: [json, base64, sha256]}\n",
	"a: {$encode: [tolist:=, flatten, join:x], b: 1}\n",
	"a: {$decode: yaml, $value: \"a: &x [*x]\"}\n",
	"a: {$decode: json, $value: \"{\\\"$merge\\\": \\\"a\\\"}\"}\n",
	"a: {$decode: yaml, $value: \"$merge: a\"}\n",
	"a: {$decode: toml, $value: \"x = {y = 1\"}\n",
}

func buildC08(tier string) *core.Plan {
	thorough := tier == "thorough"
	strLen := 5
	if thorough {
		strLen = 6
	}
	nStr := c08CountStrings(strLen)

	byteSpace := func(ext string) core.Space {
		return core.Space{Name: fmt.Sprintf("byte-strings-len%d-%s", strLen, ext), N: nStr,
			Desc: func(i int64) any {
				return map[string]any{"file": "x." + ext, "content": string(c08ByteString(i, strLen))}
			},
			Run: func(c *core.Ctx, i int64) {
				s := c08ByteString(i, strLen)
				path := filepath.Join(c08Scratch(), "x."+ext)
				os.WriteFile(path, s, 0o644)
				cl, _ := c08Lib(c, ext+":"+string(s), nil, func() ([]byte, error) { return c08EvalFile(path) })
				if cl == "ok" {
					c.Nontrivial()
				}
			}}
	}

	// structural: bases N<=3, one injection (thorough: and all second-layer combinations)
	baseA := gen.Alphabet{Scalars: []any{1, "a"}, Keys: []string{"a", "b"}, MaxList: 2, MaxMap: 2}
	nb := 3
	bases := gen.Filter(gen.Trees(baseA, nb), func(v any) bool { return gen.IsMap(v) || gen.IsList(v) })
	var inj []c08Inj
	for bi, b := range bases {
		for _, d := range c08Inject(b) {
			inj = append(inj, c08Inj{bi, d})
		}
	}
	lowers := []any{nil, map[string]any{"a": 1, "b": map[string]any{"c": 2}}, map[string]any{"a": []any{1}, "c": "$required"}, []any{1, map[string]any{"a": 1}}}
	structural := core.Space{Name: "directive-injection", N: int64(len(inj)),
		Desc: func(i int64) any {
			return map[string]any{"doc": inj[i].doc, "layered": "alone; over each of 3 lower layers; as lower layer under {a: 2}; as second document"}
		},
		Run: func(c *core.Ctx, i int64) {
			d := inj[i].doc
			w := core.Canon(d)
			cl, _ := c08Lib(c, w, d, func() ([]byte, error) { return c08EvalLayers([][]any{{d}}) })
			if cl == "ok" {
				c.Nontrivial()
			}
			for li, lo := range lowers[1:] {
				c08Lib(c, fmt.Sprintf("%s over lower%d", w, li+1), d, func() ([]byte, error) { return c08EvalLayers([][]any{{lo}, {d}}) })
			}
			c08Lib(c, w+" under {a:2}", d, func() ([]byte, error) { return c08EvalLayers([][]any{{d}, {map[string]any{"a": 2}}}) })
			c08Lib(c, w+" 2-doc stream + layer", d, func() ([]byte, error) {
				return c08EvalLayers([][]any{{map[string]any{"a": 1, "k": 0}, d}, {map[string]any{"zz": 1}}})
			})
			if thorough {
				c08Lib(c, w+" 3 layers", d, func() ([]byte, error) {
					return c08EvalLayers([][]any{{lowers[1]}, {d}, {map[string]any{"b": map[string]any{"c": 3}}}})
				})
			}
		}}

	// decoded payloads: a value produced by $decode is the only place where a key spelt like a
	// directive survives as data below a map; every directive key x every argument (plus
	// arguments that themselves carry a $repeat / $merge / $output), alone and next to a plain
	// key, decoded from JSON and YAML text at a map value, at the root and in a list.
	decArgs := append(append([]any{}, c08Args...), map[string]any{"$repeat": 2, "x": 1}, map[string]any{"$repeat": map[string]any{"i": 2}, "x": 1},
		map[string]any{"$merge": "b"}, map[string]any{"$output": true, "x": 1}, []any{map[string]any{"$repeat": 2, "x": 1}}, map[string]any{"$encode": "json", "x": 1})
	type decCase struct {
		fmtName string
		payload any
		place   int
	}
	var decCases []decCase
	for _, k := range c08DirKeys {
		for _, a := range decArgs {
			for _, extra := range []bool{false, true} {
				m := map[string]any{k: core.Clone(a)}
				if extra {
					m["x"] = 1
				}
				for _, f := range []string{"json", "yaml"} {
					for place := 0; place < 3; place++ {
						decCases = append(decCases, decCase{f, m, place})
					}
				}
			}
		}
	}
	decoded := core.Space{Name: "decoded-directive-payloads", N: int64(len(decCases)),
		Desc: func(i int64) any {
			return map[string]any{"format": decCases[i].fmtName, "payload": decCases[i].payload, "place": []string{"map value", "document root", "list entry"}[decCases[i].place]}
		},
		Run: func(c *core.Ctx, i int64) {
			dc := decCases[i]
			text, _ := json.Marshal(dc.payload) // JSON text is YAML text too
			dec := map[string]any{"$decode": dc.fmtName, "$value": string(text)}
			var d any
			switch dc.place {
			case 0:
				d = map[string]any{"a": dec, "b": map[string]any{"c": 1}}
			case 1:
				d = dec
			default:
				d = map[string]any{"a": []any{dec, 1}, "b": 2}
			}
			w := fmt.Sprintf("decoded %s place%d: %s", dc.fmtName, dc.place, text)
			cl, _ := c08Lib(c, w, d, func() ([]byte, error) { return c08EvalLayers([][]any{{d}}) })
			if cl == "ok" {
				c.Nontrivial()
			}
			c08Lib(c, w+" over lower", d, func() ([]byte, error) { return c08EvalLayers([][]any{{lowers[1]}, {d}}) })
		}}

	// double injection (the "mutated" documents): thorough only, bases N<=2
	var inj2 []any
	if thorough {
		for _, b := range gen.Filter(gen.Trees(baseA, 2), func(v any) bool { return gen.IsMap(v) || gen.IsList(v) }) {
			for _, d := range c08Inject(b) {
				if core.Size(d) > 4 {
					continue
				}
				inj2 = append(inj2, c08Inject(d)...)
			}
		}
	}
	double := core.Space{Name: "double-injection", N: int64(len(inj2)),
		Desc: func(i int64) any { return map[string]any{"doc": inj2[i]} },
		Run: func(c *core.Ctx, i int64) {
			d := inj2[i]
			c08Lib(c, core.Canon(d), d, func() ([]byte, error) { return c08EvalLayers([][]any{{d}}) })
			c08Lib(c, core.Canon(d)+" over lower1", d, func() ([]byte, error) { return c08EvalLayers([][]any{{lowers[1]}, {d}}) })
		}}

	// injected documents through real files in three formats
	formats := []string{"json", "yaml", "toml"}
	step := int64(7)
	if thorough {
		step = 1
	}
	fileInj := core.Space{Name: "directive-injection-files", N: int64(len(inj)) / step,
		Desc: func(i int64) any { return map[string]any{"doc": inj[i*step].doc, "formats": formats} },
		Run: func(c *core.Ctx, i int64) {
			d := inj[i*step].doc
			for _, ext := range formats {
				f, _ := bkl.GetFormat(ext)
				b, err := f.MarshalStream([]any{d})
				if err != nil {
					continue
				}
				dir := filepath.Join(c08Scratch(), ext)
				os.MkdirAll(dir, 0o755)
				os.WriteFile(filepath.Join(dir, "p."+ext), b, 0o644)
				os.WriteFile(filepath.Join(dir, "p.q."+ext), b, 0o644)
				c08Lib(c, ext+" file: "+core.Canon(d), d, func() ([]byte, error) { return c08EvalFile(filepath.Join(dir, "p."+ext)) })
				c08Lib(c, ext+" file layered on itself: "+core.Canon(d), d, func() ([]byte, error) { return c08EvalFile(filepath.Join(dir, "p.q."+ext)) })
				os.Remove(filepath.Join(dir, "p.q."+ext))
			}
		}}

	// reference graphs
	rv, rw := c08RefValues()
	nrv := int64(len(rv))
	refGraph := core.Space{Name: "reference-graphs-3keys", N: nrv * nrv * nrv,
		Desc: func(i int64) any {
			return map[string]any{"a": rv[i/(nrv*nrv)], "b": rv[(i/nrv)%nrv], "c": rv[i%nrv]}
		},
		Run: func(c *core.Ctx, i int64) {
			idx := []int64{i / (nrv * nrv), (i / nrv) % nrv, i % nrv}
			doc := map[string]any{}
			var wh []string
			for k, ix := range idx {
				doc[c08RefKeys[k]] = rv[ix]
				wh = append(wh, rw[ix])
			}
			w := core.Canon(doc)
			cl, out := c08Lib(c, w, doc, func() ([]byte, error) { return c08EvalLayers([][]any{{doc}}) })
			if c08PureCycle(c08RefKeys, wh) {
				c.Validated()
				c.Nontrivial()
				if cl == "ok" {
					c.Outcome("CYCLE-NOT-REPORTED")
					c.Fail("cycle-is-an-error", "cycle-accepted", w, map[string]any{"output": string(out)})
				} else {
					c.Outcome("cycle-reported")
				}
			}
		}}

	yamlTexts := core.Space{Name: "yaml-texts", N: int64(len(c08YAMLTexts)), Chunk: 1,
		Desc: func(i int64) any { return c08YAMLTexts[i] },
		Run: func(c *core.Ctx, i int64) {
			path := filepath.Join(c08Scratch(), "y.yaml")
			os.WriteFile(path, []byte(c08YAMLTexts[i]), 0o644)
			cl, _ := c08Lib(c, "yaml:"+c08YAMLTexts[i], nil, func() ([]byte, error) { return c08EvalFile(path) })
			c.Validated()
			_ = cl
		}}

	// $parent digraphs over 3 files
	parentGraphs := core.Space{Name: "parent-digraphs-3files", N: 512 * 3,
		Desc: func(i int64) any { return c08ParentGraph(i) },
		Run: func(c *core.Ctx, i int64) {
			g := c08ParentGraph(i)
			dir := filepath.Join(c08Scratch(), "pg")
			os.RemoveAll(dir)
			os.MkdirAll(dir, 0o755)
			for f := 0; f < 3; f++ {
				var ps []string
				for _, t := range g.Edges[f] {
					ps = append(ps, fmt.Sprintf("f%d", t))
				}
				txt := fmt.Sprintf("v%d: %d\n", f, f)
				if len(ps) > 0 {
					txt += "$parent: [" + strings.Join(ps, ", ") + "]\n"
				}
				os.WriteFile(filepath.Join(dir, fmt.Sprintf("f%d.yaml", f)), []byte(txt), 0o644)
			}
			w := fmt.Sprintf("entry f%d edges %v", g.Entry, g.Edges)
			cl, out := c08LibBudget(c, c08FileBudget, w, g, func() ([]byte, error) { return c08EvalFile(filepath.Join(dir, fmt.Sprintf("f%d.yaml", g.Entry))) })
			c.Validated()
			if g.cyclicFromEntry() {
				c.Nontrivial()
				if cl == "ok" {
					c.Outcome("PARENT-CYCLE-NOT-REPORTED")
					c.Fail("cycle-is-an-error", "parent-cycle-accepted", w, map[string]any{"output": string(out)})
				} else {
					c.Outcome("parent-cycle-reported")
				}
			}
		}}

	// process contract on a bounded subset, all four tools
	cliCases := c08CLICases(inj, thorough)
	cli := core.Space{Name: "cli-exit-contract", N: int64(len(cliCases)),
		Desc: func(i int64) any { return cliCases[i] },
		Run: func(c *core.Ctx, i int64) {
			c08CLI(c, cliCases[i])
		}}

	spaces := []core.Space{byteSpace("json"), byteSpace("toml"), structural, decoded, fileInj, refGraph, yamlTexts, parentGraphs, cli}
	if thorough {
		spaces = append(spaces, double)
	}
	return &core.Plan{
		Spaces: spaces,
		Rule: "all byte strings up to the length bound over a 14-byte alphabet as .json and .toml files; every single directive injection (18 directive keys x 14 argument kinds, 22 directive strings) into every base tree, alone and in 5 layerings, " +
			"and through files in 3 formats; all 3-key reference graphs over 50 reference forms; all 512 $parent digraphs over 3 files x entry; hand-written YAML anchor/alias texts; every directive key x argument as a $decode payload (JSON and YAML text; map value, root, list entry). non-trivial = evaluation produced output, or a definite cycle was present",
		Assumptions: []string{"termination is judged by a deterministic step budget (100M instrumented function/loop entries; the most expensive legitimate case here, a 1000-deep circular reference report, uses about 5M), never by wall clock; a worker that dies (fatal stack overflow, out of memory) is recorded as the failing case and the enumeration continues",
			"'cycle must be an error' is only asserted for pure cycles of whole-value references between top-level keys (or to the root) and for $parent cycles reachable from the entry file; richer reference shapes are judged on termination only",
			"decoders inside dependencies (yaml.v3, go-toml, encoding/json) are not instrumented; a hang there falls back to the worker watchdog"},
		Bounds: map[string]any{"byte_string_len": strLen, "alphabet": string(c08Alphabet), "injection_bases": len(bases), "injected_docs": len(inj), "double_injected_docs": len(inj2), "decoded_payload_cases": len(decCases), "ref_values": len(rv), "step_budget": c08Budget},
	}
}

type c08PG struct {
	Entry int     `json:"entry"`
	Edges [][]int `json:"edges"`
}

func c08ParentGraph(i int64) c08PG {
	g := c08PG{Entry: int(i % 3)}
	bits := i / 3
	g.Edges = make([][]int, 3)
	for f := 0; f < 3; f++ {
		for t := 0; t < 3; t++ {
			if bits&(1<<(uint(f*3+t))) != 0 {
				g.Edges[f] = append(g.Edges[f], t)
			}
		}
	}
	return g
}

func (g c08PG) cyclicFromEntry() bool {
	state := map[int]int{}
	var dfs func(n int) bool
	dfs = func(n int) bool {
		state[n] = 1
		for _, t := range g.Edges[n] {
			if state[t] == 1 {
				return true
			}
			if state[t] == 0 && dfs(t) {
				return true
			}
		}
		state[n] = 2
		return false
	}
	return dfs(g.Entry)
}

type c08CLICase struct {
	Tool  string            `json:"tool"`
	Files map[string]string `json:"files"`
	Args  []string          `json:"args"`
	Links map[string]string `json:"links,omitempty"` // symlink name -> target text
	Env   []string          `json:"env,omitempty"`   // extra environment entries, passed verbatim
	// MustFail: the input holds a definite reference cycle, so exit status 0 is itself the violation
	MustFail bool `json:"must_fail,omitempty"`
}

type c08Inj struct {
	base int
	doc  any
}

func c08CLICases(inj []c08Inj, thorough bool) []c08CLICase {
	var out []c08CLICase
	js, _ := bkl.GetFormat("json")
	step := 97
	if thorough {
		step = 11
	}
	for i := 0; i < len(inj); i += step {
		b, err := js.MarshalStream([]any{inj[i].doc})
		if err != nil {
			continue
		}
		out = append(out, c08CLICase{Tool: "bkl", Files: map[string]string{"in.json": string(b)}, Args: []string{"in.json"}})
		if (i/step)%4 == 0 {
			out = append(out, c08CLICase{Tool: "bklr", Files: map[string]string{"in.json": string(b)}, Args: []string{"in.json"}})
			out = append(out, c08CLICase{Tool: "bkld", Files: map[string]string{"in.json": string(b), "t.json": "{\"a\": 1}\n"}, Args: []string{"in.json", "t.json"}})
			out = append(out, c08CLICase{Tool: "bkli", Files: map[string]string{"in.json": string(b), "t.json": "{\"a\": 1}\n"}, Args: []string{"in.json", "t.json"}})
		}
	}
	for _, y := range c08YAMLTexts {
		out = append(out, c08CLICase{Tool: "bkl", Files: map[string]string{"in.yaml": y}, Args: []string{"in.yaml"}})
		out = append(out, c08CLICase{Tool: "bklr", Files: map[string]string{"in.yaml": y}, Args: []string{"in.yaml"}})
		out = append(out, c08CLICase{Tool: "bkld", Files: map[string]string{"in.yaml": y, "t.yaml": "a: 1\n"}, Args: []string{"t.yaml", "in.yaml"}})
		out = append(out, c08CLICase{Tool: "bkli", Files: map[string]string{"in.yaml": y, "t.yaml": "a: 1\n"}, Args: []string{"t.yaml", "in.yaml"}})
	}
	// every $parent digraph over 2 files and a sample over 3, through the CLI
	for i := int64(0); i < 512*3; i += 5 {
		g := c08ParentGraph(i)
		files := map[string]string{}
		for f := 0; f < 3; f++ {
			var ps []string
			for _, t := range g.Edges[f] {
				ps = append(ps, fmt.Sprintf("f%d", t))
			}
			txt := fmt.Sprintf("v%d: %d\n", f, f)
			if len(ps) > 0 {
				txt += "$parent: [" + strings.Join(ps, ", ") + "]\n"
			}
			files[fmt.Sprintf("f%d.yaml", f)] = txt
		}
		out = append(out, c08CLICase{Tool: "bkl", Files: files, Args: []string{fmt.Sprintf("f%d.yaml", g.Entry)}})
	}
	// empty, blank and comment-only inputs (zero or one empty document, depending on the format)
	for _, content := range []string{"", " ", "\n", "\n\n", "# c\n", "---\n", "---\n---\n", "null\n", "[]\n", "{}\n", "{} {}\n", "1\n"} {
		for _, ext := range []string{"json", "yaml", "toml", "jsonl", "yml"} {
			in := "in." + ext
			out = append(out, c08CLICase{Tool: "bkl", Files: map[string]string{in: content}, Args: []string{in}})
			out = append(out, c08CLICase{Tool: "bklr", Files: map[string]string{in: content}, Args: []string{in}})
			out = append(out, c08CLICase{Tool: "bkld", Files: map[string]string{in: content, "t.yaml": "a: 1\n"}, Args: []string{in, "t.yaml"}})
			out = append(out, c08CLICase{Tool: "bkld", Files: map[string]string{in: content, "t.yaml": "a: 1\n"}, Args: []string{"t.yaml", in}})
			out = append(out, c08CLICase{Tool: "bkli", Files: map[string]string{in: content, "t.yaml": "a: 1\n"}, Args: []string{in, "t.yaml"}})
			out = append(out, c08CLICase{Tool: "bkli", Files: map[string]string{in: content, "t.yaml": "a: 1\n"}, Args: []string{"t.yaml", in}})
			out = append(out, c08CLICase{Tool: "bkl", Files: map[string]string{in: content, "in.x." + ext: "a: 1\n"}, Args: []string{"in.x." + ext}})
		}
	}
	// streams in which several documents fail (and some do not): one diagnostic, no partial output, no deadlock
	for _, content := range []string{
		"a: $required\n---\nb: $required\n",
		"ok: 1\n---\na: $required\n---\nb: $bogus\n---\nok: 2\n",
		"a: $merge:nope\n---\nb: $\"{nope}\"\n---\nc: $required\n",
		"ok: 1\n---\nok: 2\n---\nok: 3\n---\nok: 4\n---\nok: 5\n---\nok: 6\n---\nok: 7\n---\na: $required\n---\nb: $required\n",
	} {
		out = append(out, c08CLICase{Tool: "bkl", Files: map[string]string{"in.yaml": content}, Args: []string{"in.yaml"}})
		out = append(out, c08CLICase{Tool: "bkl", Files: map[string]string{"in.yaml": content}, Args: []string{"-o", "o.json", "in.yaml"}})
		out = append(out, c08CLICase{Tool: "bklr", Files: map[string]string{"in.yaml": content}, Args: []string{"in.yaml"}})
	}
	// a $merge that resolves to the map carrying it, in every spelling: a cycle, to be reported
	for _, content := range []string{
		"a: {x: 1, $merge: a}\n", "a: {x: 1, $merge: [a]}\n", "a:\n  b: {$merge: a}\n", "$merge: []\nk: 1\n", "a: {$merge: a}\n",
		"l: [{$merge: l}, 1]\n", "a: {x: 1}\n---\n$match: {}\na: {$merge: a, y: 2}\n",
	} {
		out = append(out, c08CLICase{Tool: "bkl", Files: map[string]string{"in.yaml": content}, Args: []string{"in.yaml"}, MustFail: true})
	}
	// YAML merge keys whose operand is not what the specification asks for
	for _, content := range []string{
		"b: &b {k: 1}\nm:\n  <<: [*b, 5]\n", "b: &b {k: 1}\nm:\n  <<: [*b, null]\n", "b: &b {k: 1}\nm:\n  <<: [[*b], *b]\n", "m:\n  <<: 5\n", "m:\n  <<: text\n  k: 1\n",
		"c: &c [1]\nm:\n  <<: *c\n", "m:\n  <<: null\n", "m:\n  <<: [{a: 1}, [2]]\n",
	} {
		for _, t := range []string{"bkl", "bklr"} {
			out = append(out, c08CLICase{Tool: t, Files: map[string]string{"in.yaml": content}, Args: []string{"in.yaml"}})
		}
		out = append(out, c08CLICase{Tool: "bkld", Files: map[string]string{"in.yaml": content, "t.yaml": "a: 1\n"}, Args: []string{"t.yaml", "in.yaml"}})
		out = append(out, c08CLICase{Tool: "bkli", Files: map[string]string{"in.yaml": content, "t.yaml": "a: 1\n"}, Args: []string{"in.yaml", "t.yaml"}})
	}
	// -P (MergeFile instead of MergeFileLayers): inputs that fail to load or to merge must still be reported
	for _, content := range []string{"a: [\n", "$match: {zz: 1}\nb: 1\n", "a: $required\n", "{\"a\": }\n", "a: 1\n---\n$match: {nope: 1}\nb: 2\n", "$parent: true\n", "a: &x [*x]\n"} {
		out = append(out, c08CLICase{Tool: "bkl", Files: map[string]string{"in.yaml": content}, Args: []string{"-P", "in.yaml"}})
		out = append(out, c08CLICase{Tool: "bkl", Files: map[string]string{"in.yaml": content, "ok.yaml": "k: 1\n"}, Args: []string{"-P", "ok.yaml", "in.yaml"}})
		out = append(out, c08CLICase{Tool: "bkl", Files: map[string]string{"in.yaml": content}, Args: []string{"-P", "-o", "o.json", "in.yaml"}})
	}
	// every way to make each of four layer files (two directories, a layer and its child layer in each)
	// a regular file or a symlink to one of the others: inheritance follows the TARGET's name, so links
	// can close a cycle without any $parent; every entry point
	{
		names := []string{"a/x.yaml", "a/x.k.yaml", "b/y.yaml", "b/y.k.yaml"}
		rel := func(from, to string) string {
			r, _ := filepath.Rel(filepath.Dir(from), to)
			return r
		}
		for code := 0; code < 4*4*4*4; code++ {
			files, links := map[string]string{}, map[string]string{}
			cdigits := code
			for i, n := range names {
				choice := cdigits % 4
				cdigits /= 4
				if choice == i {
					files[n] = fmt.Sprintf("k%d: %d\n", i, i)
				} else {
					links[n] = rel(n, names[choice])
				}
			}
			if len(links) == 0 {
				continue
			}
			for _, entry := range names {
				out = append(out, c08CLICase{Tool: "bkl", Files: files, Links: links, Args: []string{entry}})
			}
		}
	}
	// bkli / bkld over lists of different lengths, with and without common entries, in both argument orders
	{
		ls := []string{"[]", "[1]", "[1, 2, 3]", "[4]", "[3, 1]", "[{a: 1}, {a: 2}, {b: 3}]", "[{a: 2}]", "[[1], [2, 3]]", "[1, 1, 1]", "[x, y, z, w]"}
		for _, a := range ls {
			for _, b := range ls {
				files := map[string]string{"p.yaml": "k: 1\nl: " + a + "\n", "q.yaml": "k: 1\nl: " + b + "\n", "r.yaml": "k: 1\nl: [1]\n"}
				out = append(out, c08CLICase{Tool: "bkli", Files: files, Args: []string{"p.yaml", "q.yaml"}})
				out = append(out, c08CLICase{Tool: "bkli", Files: files, Args: []string{"p.yaml", "q.yaml", "r.yaml"}})
				out = append(out, c08CLICase{Tool: "bkld", Files: files, Args: []string{"p.yaml", "q.yaml"}})
			}
		}
	}
	// odd process environments: entries that are not NAME=value, empty names and values, huge values
	for _, env := range [][]string{{"NOEQUALS"}, {"=x"}, {"A="}, {""}, {"V=" + strings.Repeat("v", 100000)}, {"A=1", "A=2"}, {"BKL_VERSION="}} {
		for _, t := range []string{"bkl", "bkld", "bkli", "bklr"} {
			args := []string{"in.yaml"}
			if t == "bkld" || t == "bkli" {
				args = []string{"in.yaml", "t.yaml"}
			}
			out = append(out, c08CLICase{Tool: t, Files: map[string]string{"in.yaml": "a: 1\nh: $env:HOME\n", "t.yaml": "a: 1\n"}, Args: args, Env: env})
		}
	}
	// malformed command lines
	for _, a := range [][]string{{}, {"-f", "nope", "in.json"}, {"missing.json"}, {"in.ini"}, {"-o", "/nonexistent-dir/x.json", "in.json"}, {"--bogus"}, {"in.json", "missing.yaml"},
		{"-f", "", "in.json"}, {"-f", "json", "-f", "yaml", "in.json"}, {"-o", "", "in.json"}, {"-r", "", "in.json"}, {"-r", "/nonexistent-root", "in.json"}, {"in.json", "-P", "-P"},
		{"--", "in.json"}, {"--", "-f"}, {"-"}, {"-.json"}, {"in.json", "-o"}, {"-f"}, {"in.json", "in.json"}, {"./in.json", "in.json"}, {"-o", "in.json", "in.json"}, {""}, {" "}, {"in.json", ""}} {
		for _, t := range []string{"bkl", "bkld", "bkli", "bklr"} {
			out = append(out, c08CLICase{Tool: t, Files: map[string]string{"in.json": "{\"a\": 1}\n", "in.ini": "a=1\n"}, Args: a})
		}
	}
	return out
}

func c08CLI(c *core.Ctx, cs c08CLICase) {
	dir := scratchDir()
	defer os.RemoveAll(dir)
	var names []string
	for n, content := range cs.Files {
		os.MkdirAll(filepath.Dir(filepath.Join(dir, n)), 0o755)
		os.WriteFile(filepath.Join(dir, n), []byte(content), 0o644)
		names = append(names, n)
	}
	for n, target := range cs.Links {
		os.MkdirAll(filepath.Dir(filepath.Join(dir, n)), 0o755)
		os.Symlink(target, filepath.Join(dir, n))
	}
	sort.Strings(names)
	cmd := exec.Command(filepath.Join(core.WorkDir(), "bin", cs.Tool), cs.Args...)
	cmd.Dir = dir
	cmd.Env = append([]string{"PATH=/usr/bin:/bin", "HOME=/root"}, cs.Env...)
	var so, se bytes.Buffer
	cmd.Stdout, cmd.Stderr = &so, &se
	c.Eval()
	c.Trans(1)
	limit := 20 * time.Second
	if c08ConfirmedHangs >= 1 {
		limit = 15 * time.Second
	}
	err := runWithLimit(cmd, limit)
	wit := cs.Tool + " " + strings.Join(cs.Args, " ") + " :: " + core.JSON(cs.Files)
	if len(cs.Links) > 0 {
		wit += " links " + core.JSON(cs.Links)
	}
	if len(cs.Env) > 0 {
		e := core.JSON(cs.Env)
		if len(e) > 60 {
			e = e[:60] + "..."
		}
		wit += " env " + e
	}
	c.Validated()
	if err == errWatchdog && c08ConfirmedHangs < 1 {
		// nominated only: run it once more, alone, with the generous limit before believing it
		cmd2 := exec.Command(filepath.Join(core.WorkDir(), "bin", cs.Tool), cs.Args...)
		cmd2.Dir = dir
		cmd2.Env = cmd.Env
		so.Reset()
		se.Reset()
		cmd2.Stdout, cmd2.Stderr = &so, &se
		err = runWithWatchdog(cmd2)
	}
	if err == errWatchdog {
		c08ConfirmedHangs++
		c.Outcome("CLI-HANG")
		c.Fail("cli-terminates", "hang", wit, nil)
		c.Expensive()
		return
	}
	code := 0
	if err != nil {
		if ee, ok := err.(*exec.ExitError); ok {
			code = ee.ExitCode()
		} else {
			c.Fail("harness", "cannot-run", wit, err.Error())
			return
		}
	}
	stderr := se.String()
	if strings.Contains(stderr, "panic:") || strings.Contains(stderr, "fatal error:") || strings.Contains(stderr, "goroutine 1 [") {
		c.Outcome("CLI-CRASH")
		c.Fail("cli-no-crash", "crash", cs.Tool+" @ "+crashFrame(stderr), map[string]any{"case": cs, "exit": code, "stderr": headTailS(stderr, 1500)})
		if strings.Contains(stderr, "stack overflow") || strings.Contains(stderr, "out of memory") {
			c.Expensive()
		}
		return
	}
	if code == 0 {
		c.Outcome("cli-exit0")
		c.Nontrivial()
		if cs.MustFail {
			c.Outcome("CYCLE-NOT-REPORTED")
			c.Fail("cycle-is-an-error", "self-reference-evaluated", wit, map[string]any{"stdout": headTailS(so.String(), 500)})
			return
		}
		c08CLIComplete(c, cs, dir, wit, so.Bytes())
		return
	}
	if so.Len() > 0 {
		c.Outcome("CLI-PARTIAL-OUTPUT")
		c.Fail("cli-exit-contract", "stdout-on-failure", wit, map[string]any{"exit": code, "stdout": headTailS(so.String(), 500), "stderr": headTailS(stderr, 500)})
		return
	}
	if se.Len() == 0 {
		c.Outcome("CLI-SILENT-FAILURE")
		c.Fail("cli-exit-contract", "no-diagnostic", wit, map[string]any{"exit": code})
		return
	}
	c.Outcome("cli-error-reported")
}

// c08CLIComplete decides "complete output" for an exit-0 run of the bkl tool: the same files are
// taken through the library calls the tool is documented to make (FileMatch, MergeFile[Layers],
// Output) in this process; the tool may exit 0 only if the library reports no error, and what it
// wrote (stdout, or the -o file) must be exactly the library's bytes.
func c08CLIComplete(c *core.Ctx, cs c08CLICase, dir, wit string, stdout []byte) {
	if cs.Tool != "bkl" {
		return
	}
	skipParent, outPath := false, ""
	var inputs []string
	for i := 0; i < len(cs.Args); i++ {
		a := cs.Args[i]
		switch {
		case a == "-P":
			skipParent = true
		case a == "-o" && i+1 < len(cs.Args):
			outPath = cs.Args[i+1]
			i++
		case strings.HasPrefix(a, "-"):
			return
		default:
			inputs = append(inputs, a)
		}
	}
	if len(inputs) == 0 {
		return
	}
	class, want := c08LibBudget(c, c08FileBudget*20, wit, cs, func() ([]byte, error) {
		p := newParser()
		format := ""
		for _, in := range inputs {
			real, f, err := bkl.FileMatch(filepath.Join(dir, in))
			if err != nil {
				return nil, err
			}
			if format == "" && outPath == "" {
				format = f
			}
			if skipParent {
				err = p.MergeFile(real)
			} else {
				err = p.MergeFileLayers(real)
			}
			if err != nil {
				return nil, err
			}
		}
		if format == "" && outPath != "" {
			format = strings.TrimPrefix(filepath.Ext(outPath), ".")
		}
		if format == "" {
			format = "json-pretty"
		}
		return p.Output(format)
	})
	switch class {
	case "error":
		c.Outcome("CLI-EXIT0-LIBRARY-ERROR")
		c.Fail("cli-complete-output", "exit-0-although-library-reports-error", wit, map[string]any{"stdout": headTailS(string(stdout), 500)})
	case "ok":
		got := stdout
		if outPath != "" {
			if !filepath.IsAbs(outPath) {
				outPath = filepath.Join(dir, outPath)
			}
			got, _ = os.ReadFile(outPath)
		}
		c.Validated()
		if !bytes.Equal(got, want) {
			c.Outcome("CLI-OUTPUT-INCOMPLETE")
			c.Fail("cli-complete-output", "differs-from-library-output", wit, map[string]any{"tool": headTailS(string(got), 500), "library": headTailS(string(want), 500)})
		}
	}
}

func crashFrame(stderr string) string {
	msg := ""
	for _, l := range strings.Split(stderr, "\n") {
		if msg == "" && (strings.HasPrefix(l, "panic:") || strings.HasPrefix(l, "fatal error:")) {
			msg = l
			if len(msg) > 80 {
				msg = msg[:80]
			}
		}
		t := strings.TrimSpace(l)
		if strings.HasPrefix(t, core.RepoDir()+"/") {
			return msg + " " + strings.Fields(t)[0]
		}
	}
	return msg
}
