package checks

import (
	"bytes"
	"fmt"
	"os"
	"path/filepath"
	"strings"

	"github.com/gopatchy/bkl"
	"verif/core"
	"verif/gen"
	"verif/ref"
)

// C19 — producing output is a pure observation of parser state.

func init() {
	core.Register(&core.Check{ID: "C19", Title: "output is a pure observation", Build: buildC19})
}

type c19Template struct {
	Name    string
	Data    any
	Parents bool // lists every earlier document as parent (merges into all of them)
}

var c19Templates = []c19Template{
	{"merge", map[string]any{"a": 1, "b": map[string]any{"$merge": "c"}, "c": map[string]any{"x": 1}}, false},
	{"repeat-int", map[string]any{"$repeat": 2, "i": "$repeat"}, false},
	{"repeat-named", map[string]any{"$repeat": map[string]any{"x": 2, "y": 1}, "v": `$"{$repeat:x}-{$repeat:y}"`}, false},
	{"encode", map[string]any{"e": map[string]any{"$encode": "json", "k": []any{1, 2}}}, false},
	{"output", map[string]any{"o": map[string]any{"$output": true, "z": 1}, "p": map[string]any{"$output": true, "z": 2}}, false},
	{"interp", map[string]any{"s": `$"{a}-{c.x}"`, "a": "v", "c": map[string]any{"x": 7}}, false},
	{"match", map[string]any{"$match": map[string]any{"a": 1}, "n": 5}, false},
	{"replace", map[string]any{"r": map[string]any{"$replace": "c"}, "c": map[string]any{"y": 2}, "a": 1}, false},
	{"list-repeat", []any{1, map[string]any{"$repeat": 2, "q": "$repeat"}}, false},
	{"child-merge", map[string]any{"zz": map[string]any{"$merge": "c"}}, true},
	{"hidden", map[string]any{"$match": nil, "h": map[string]any{"$output": false, "t": 1}, "u": "$merge:h.t"}, false},
	{"cross-doc", map[string]any{"x": map[string]any{"$merge": map[string]any{"$match": map[string]any{"a": 1}, "$path": "c"}}}, false},
	{"nested-list-merge", map[string]any{"groups": []any{[]any{map[string]any{"name": "web", "$merge": "defaults"}}}, "defaults": map[string]any{"cpu": 1}}, false},
	{"match-changes-c", map[string]any{"$match": map[string]any{"a": 1}, "c": map[string]any{"y": 9}}, false},
	{"child-changes-defaults", map[string]any{"defaults": map[string]any{"cpu": 8}}, true},
	{"doc-with-nested-merge-host", map[string]any{"a": 1, "c": map[string]any{"$merge": "p", "x": 1}, "p": map[string]any{"v": "A"}}, false},
	{"cross-doc-into-nested-host", map[string]any{"p": map[string]any{"v": "B"}, "y": map[string]any{"$replace": map[string]any{"$match": map[string]any{"a": 1}, "$path": "c"}}, "w": []any{map[string]any{"$replace": []any{map[string]any{"a": 1}, "c"}}}}, false},
	{"evaluated-key-collides", map[string]any{"name": "svc", "svc": "literal", `$"{name}"`: "interpolated"}, false},
	{"required", map[string]any{"a": 1, "need": "$required", "c": map[string]any{"x": 1}}, false},
	{"supplies-required", map[string]any{"$match": map[string]any{"a": 1}, "need": "given"}, false},
	{"hidden-root", map[string]any{"$output": false, "a": 1, "c": map[string]any{"x": 1}}, false},
	{"cross-doc-replace-list", map[string]any{"y": map[string]any{"$replace": []any{map[string]any{"a": 1}, "c"}}, "l": []any{[]any{map[string]any{"$merge": map[string]any{"$match": map[string]any{"a": 1}, "$path": "c"}, "z": 0}}}}, false},
	{"hidden-template-doc", map[string]any{"$output": false, "tid": 1, "image": "nginx", "opts": map[string]any{"x": 1}}, false},
	{"refers-to-template-doc", map[string]any{"app": 1, "image": map[string]any{"$replace": map[string]any{"$match": map[string]any{"tid": 1}, "$path": "image"}}, "o": map[string]any{"$merge": []any{map[string]any{"tid": 1}, "opts"}, "y": 2}}, false},
	{"template-doc-gains-required", map[string]any{"$match": map[string]any{"tid": 1}, "image": "$required", "opts": map[string]any{"x": 2}}, false},
	{"empty-document", nil, false},
	{"merge-host-with-empty-children", map[string]any{"a": 1, "h": map[string]any{"$merge": "t", "e": map[string]any{}, "l": []any{}}, "t": map[string]any{"e": map[string]any{"x": 1}, "l": []any{2}, "n": map[string]any{}}}, false},
}

// operations: 0..3 = merge template k of the chosen set, 4 = MergeFileLayers,
// then the observations.
const (
	c19MFL = 4 + iota
	c19Docs
	c19OutJSON
	c19OutYAML
	c19OutDocs
	c19OutWriter
	c19NOps
)

var c19OpNames = []string{"M0", "M1", "M2", "M3", "MFL", "Docs", "Out(json)", "Out(yaml)", "OutDocs", "OutW(toml)"}

func c19IsMerge(op int) bool { return op <= c19MFL }

var c19FileDir string

func c19Files() string {
	if c19FileDir != "" {
		return c19FileDir
	}
	dir := filepath.Join(core.WorkDir(), "fs", fmt.Sprintf("c19-%d", os.Getpid()))
	os.MkdirAll(dir, 0o755)
	os.WriteFile(filepath.Join(dir, "f.yaml"), []byte("k: 1\nc:\n  w: 3\nt: {$merge: c}\n---\nk: 2\n$repeat: 2\nn: $repeat\n"), 0o644)
	os.WriteFile(filepath.Join(dir, "f.g.yaml"), []byte("$match: {k: 1}\nmore: {$encode: base64, $value: abc}\n"), 0o644)
	c19FileDir = dir
	return dir
}

type c19Parser struct {
	p      *bkl.Parser
	merges int
	all    []*bkl.Document
	dead   bool
}

func newC19Parser() *c19Parser { return &c19Parser{p: newParser()} }

// apply executes one operation; obs is the canonical observation ("" for merges that succeed).
func (x *c19Parser) apply(set []int, op int) (obs string, raw []byte, err error) {
	switch {
	case op < 4:
		t := c19Templates[set[op]]
		d := bkl.NewDocumentWithData(fmt.Sprintf("m%d", x.merges), core.Clone(t.Data))
		if t.Parents {
			d.AddParents(x.all...)
		}
		x.merges++
		x.all = append(x.all, d)
		err = x.p.MergeDocument(d)
		if err != nil {
			x.dead = true
		}
		return "merge:" + errClass(err), nil, err
	case op == c19MFL:
		x.merges++
		err = x.p.MergeFileLayers(filepath.Join(c19Files(), "f.g.yaml"))
		if err != nil {
			x.dead = true
		}
		return "mfl:" + errClass(err), nil, err
	case op == c19Docs:
		return "docs:" + core.Canon(docData(x.p)), nil, nil
	case op == c19OutJSON:
		b, e := x.p.Output("json")
		return "json:" + string(b) + "|" + errClass(e), b, nil
	case op == c19OutYAML:
		b, e := x.p.Output("yaml")
		return "yaml:" + string(b) + "|" + errClass(e), b, nil
	case op == c19OutDocs:
		o, e := x.p.OutputDocuments()
		return "outdocs:" + core.Canon(o) + "|" + errClass(e), nil, nil
	default:
		var buf bytes.Buffer
		e := x.p.OutputToWriter(&buf, "json-pretty")
		return "outw:" + buf.String() + "|" + errClass(e), nil, nil
	}
}

// key is the full reflective dump (de-duplication key: two parsers with different hidden
// state are different states even if their documents agree).
func (x *c19Parser) key() string {
	return core.DumpState(x.p, "github.com/gopatchy/bkl")
}

// docsKey is what the property is about: the documents the parser exposes (ids, parent
// links, data, pointer sharing). A correct implementation may keep other state (say, an
// output cache that it invalidates properly); that must not raise an alarm.
func (x *c19Parser) docsKey() string {
	return core.DumpState(x.p.Documents(), "github.com/gopatchy/bkl")
}

func c19HistString(h []int) string {
	var s []string
	for _, op := range h {
		s = append(s, c19OpNames[op])
	}
	return strings.Join(s, ",")
}

func c19SetNames(set []int) []string {
	var s []string
	for _, k := range set {
		s = append(s, c19Templates[k].Name)
	}
	return s
}

// c19Expected memoises, per merges-only history, what a parser that has never
// been observed reports for each observation (one fresh parser per observation).
type c19Memo struct {
	set []int
	m   map[string]map[int]string
	c   *core.Ctx
}

func (m *c19Memo) expect(merges []int, op int) string {
	k := fmt.Sprint(merges)
	e, ok := m.m[k]
	if !ok {
		e = map[int]string{}
		m.m[k] = e
	}
	if v, ok := e[op]; ok {
		return v
	}
	x := newC19Parser()
	for _, mo := range merges {
		m.c.Trans(1)
		x.apply(m.set, mo)
	}
	m.c.Trans(1)
	obs, _, _ := x.apply(m.set, op)
	e[op] = obs
	return obs
}

// c19Stateless runs one history against a fresh parser and checks I2-I5.
func c19Stateless(c *core.Ctx, memo *c19Memo, set []int, h []int) {
	c.Eval()
	x := newC19Parser()
	var merges []int
	type kept struct {
		live []byte
		copy []byte
		at   int
	}
	var keep []kept
	wit := func(i int) string { return fmt.Sprintf("%v: %s", c19SetNames(set), c19HistString(h[:i+1])) }
	observed := false
	for i, op := range h {
		c.Trans(1)
		obs, raw, _ := x.apply(set, op)
		if c19IsMerge(op) {
			merges = append(merges, op)
			// merging after an observation must behave as if never observed
			exp := c19MergeExpect(memo, merges)
			if obs != exp {
				c.Outcome("MERGE-DIFFERS")
				c.Fail("as-if-never-observed", "merge-status-differs", wit(i), map[string]any{"got": obs, "want": exp})
				return
			}
			if x.dead {
				c.Outcome("merge-error-ends-history")
				return
			}
			continue
		}
		observed = true
		exp := memo.expect(merges, op)
		c.Validated()
		if obs != exp {
			c.Outcome("OBSERVATION-DIFFERS")
			c.Fail("as-if-never-observed", "observation-differs", wit(i), map[string]any{"op": c19OpNames[op], "got": obs, "want": exp})
			return
		}
		if raw != nil {
			keep = append(keep, kept{raw, append([]byte{}, raw...), i})
		}
	}
	for _, k := range keep {
		if !bytes.Equal(k.live, k.copy) {
			c.Outcome("RETURNED-BYTES-CHANGED")
			c.Fail("returned-bytes-stable", "bytes-overwritten", wit(len(h)-1), map[string]any{"returned_at": k.at, "was": string(k.copy), "now": string(k.live)})
			return
		}
	}
	// final Documents() equals the never-observed parser's
	exp := memo.expect(merges, c19Docs)
	obs, _, _ := x.apply(set, c19Docs)
	if obs != exp {
		c.Outcome("DOCUMENTS-CHANGED")
		c.Fail("documents-unchanged", "documents-differ", wit(len(h)-1), map[string]any{"got": obs, "want": exp})
		return
	}
	if observed && len(merges) > 0 {
		c.NontrivialSub()
	}
	c.Outcome("pure")
}

func c19MergeExpect(memo *c19Memo, merges []int) string {
	k := "M" + fmt.Sprint(merges)
	e, ok := memo.m[k]
	if !ok {
		e = map[int]string{}
		memo.m[k] = e
		x := newC19Parser()
		last := ""
		for _, mo := range merges {
			memo.c.Trans(1)
			last, _, _ = x.apply(memo.set, mo)
			if x.dead {
				break
			}
		}
		e[0] = last
	}
	return e[0]
}

// c19BFS explores all histories up to maxLen (at most maxMerges merges) with
// de-duplication on the reflective dump of the whole Parser.
func c19BFS(c *core.Ctx, set []int, maxLen, maxMerges int) {
	type node struct {
		hist   []int
		merges int
	}
	build := func(h []int) *c19Parser {
		x := newC19Parser()
		for _, op := range h {
			c.Trans(1)
			x.apply(set, op)
			if x.dead {
				return x
			}
		}
		return x
	}
	seen := map[string][]int{}
	obsByState := map[string]string{} // (state, op) -> first observation
	root := newC19Parser()
	seen[root.key()] = []int{}
	frontier := []node{{nil, 0}}
	states, transitions, selfLoops := 1, 0, 0
	for len(frontier) > 0 {
		n := frontier[0]
		frontier = frontier[1:]
		if len(n.hist) >= maxLen {
			continue
		}
		for op := 0; op < c19NOps; op++ {
			if c19IsMerge(op) && n.merges >= maxMerges {
				continue
			}
			c.Eval()
			x := build(n.hist)
			before := x.key()
			docsBefore := x.docsKey()
			c.Trans(1)
			obs, _, _ := x.apply(set, op)
			transitions++
			h2 := append(append([]int{}, n.hist...), op)
			wit := fmt.Sprintf("%v: %s", c19SetNames(set), c19HistString(h2))
			if x.dead {
				continue // state after a failed merge is unspecified
			}
			after := x.key()
			if !c19IsMerge(op) {
				// I1: observations leave the exposed documents exactly as they were
				if docsAfter := x.docsKey(); docsAfter != docsBefore {
					c.Outcome("OBSERVATION-CHANGED-STATE")
					c.Fail("observation-self-loop", "documents-changed", wit, map[string]any{"op": c19OpNames[op], "before": clip(docsBefore), "after": clip(docsAfter)})
					return
				}
				if after != before {
					// hidden state moved (a cache, a counter): not forbidden by itself, but then this is a
					// new state whose futures must be explored like any other
					c.Extra("observations_changing_hidden_state", 1)
					if _, ok := seen[after]; !ok {
						seen[after] = h2
						states++
						c.State(after)
						frontier = append(frontier, node{h2, n.merges})
					}
				} else {
					selfLoops++
				}
				// I2: observation is a function of (state, op)
				k := before + "\x00" + fmt.Sprint(op)
				if first, ok := obsByState[k]; ok {
					if first != obs {
						c.Outcome("OBSERVATION-NOT-A-FUNCTION-OF-STATE")
						c.Fail("observation-function-of-state", "differs-between-visits", wit, map[string]any{"op": c19OpNames[op], "first": first, "now": obs})
						return
					}
				} else {
					obsByState[k] = obs
				}
				c.Validated()
				continue
			}
			if _, ok := seen[after]; !ok {
				seen[after] = h2
				states++
				c.State(after)
				frontier = append(frontier, node{h2, n.merges + 1})
			}
		}
	}
	c.Extra("bfs_states", int64(states))
	c.Extra("bfs_transitions", int64(transitions))
	c.Extra("bfs_self_loops", int64(selfLoops))
	c.Nontrivial()
	c.Outcome("bfs-complete")
}

func clip(s string) string {
	if len(s) > 1500 {
		return s[:1500] + "..."
	}
	return s
}

// c19Model checks I5: Documents() is the merged, unevaluated tree of the
// reference stream model, before and after every kind of output.
func c19Model(c *core.Ctx, set []int, merges []int) {
	x := newC19Parser()
	s := &ref.Stream{}
	var rall []*ref.Doc
	n := 0
	for _, mo := range merges {
		if mo >= 4 {
			return
		}
		t := c19Templates[set[mo]]
		rd := &ref.Doc{ID: fmt.Sprintf("m%d", n), Data: core.Clone(t.Data)}
		n++
		if t.Parents {
			rd.Parents = append(rd.Parents, rall...)
		}
		rall = append(rall, rd)
		c.Trans(1)
		_, _, err := x.apply(set, mo)
		res, _ := s.MergeDocument(rd)
		if res.V == ref.Unspec {
			c.Unspec()
			return
		}
		if (res.V == ref.Reject) != (err != nil) {
			c.Fail("documents-are-merged-trees", "merge-status", fmt.Sprintf("%v: %v", c19SetNames(set), merges), map[string]any{"model": res.V.String(), "error": errStr(err)})
			return
		}
		if err != nil {
			return
		}
	}
	want := make([]any, len(s.Docs))
	for i, d := range s.Docs {
		want[i] = d.Data
	}
	for round := 0; round < 2; round++ {
		got := docData(x.p)
		c.Validated()
		if !core.Equal(got, want) {
			c.Fail("documents-are-merged-trees", "documents-not-merged-unevaluated", fmt.Sprintf("%v: %v round %d", c19SetNames(set), merges, round), map[string]any{"got": got, "want": want})
			return
		}
		c.Trans(3)
		x.p.Output("json")
		x.p.OutputDocuments()
		x.p.Output("yaml")
	}
	c.Outcome("model-agrees")
}

func buildC19(tier string) *core.Plan {
	thorough := tier == "thorough"
	statelessLen, bfsLen := 5, 8
	var sets [][]int
	if thorough {
		statelessLen = 6
		// every 4-subset of the 19 general templates; the later, purpose-built groups (required/supplied,
		// hidden root, template document + referrer + change) completed by every choice of general ones
		general := []int{0, 1, 2, 3, 4, 5, 6, 7, 8, 9, 10, 11, 12, 13, 14, 15, 16, 17, 21}
		n := len(general)
		for a := 0; a < n; a++ {
			for b := a + 1; b < n; b++ {
				sets = append(sets, []int{18, 19, general[a], general[b]})
				for d := b + 1; d < n; d++ {
					sets = append(sets, []int{20, general[a], general[b], general[d]})
					for e := d + 1; e < n; e++ {
						sets = append(sets, []int{general[a], general[b], general[d], general[e]})
					}
				}
			}
			sets = append(sets, []int{22, 23, 24, general[a]})
			for b := a + 1; b < n; b++ {
				sets = append(sets, []int{25, 25, general[a], general[b]})
				sets = append(sets, []int{26, 26, general[a], general[b]})
			}
		}
	} else {
		sets = [][]int{{0, 1, 6, 9}, {2, 3, 4, 10}, {5, 7, 8, 11}, {0, 1, 2, 8}, {0, 11, 13, 9}, {12, 14, 1, 6}, {0, 21, 13, 14}, {15, 16, 17, 13}, {18, 19, 0, 9}, {20, 0, 6, 13}, {22, 23, 24, 0}, {25, 0, 1, 6}, {26, 0, 6, 9}}
	}
	statelessSets := sets
	if thorough {
		statelessSets = [][]int{{0, 1, 6, 9}, {2, 3, 4, 10}, {5, 7, 8, 11}, {0, 1, 2, 8}, {0, 6, 9, 11}, {1, 4, 8, 10}, {0, 11, 13, 9}, {12, 14, 1, 6}, {0, 21, 13, 14}, {15, 16, 17, 13}, {18, 19, 0, 9}, {20, 0, 6, 13}, {22, 23, 24, 0}, {25, 0, 1, 6}, {26, 0, 6, 9}}
	} else {
		statelessSets = [][]int{sets[0], sets[1], sets[4], sets[5], sets[7], sets[8], sets[9], sets[10], sets[11], sets[12]}
	}

	// stateless: case = (set, first two ops); inner = all continuations
	nfirst := int64(c19NOps * c19NOps)
	stateless := core.Space{Name: fmt.Sprintf("all-histories-len%d-no-dedupe", statelessLen), N: int64(len(statelessSets)) * nfirst,
		Desc: func(i int64) any {
			set := statelessSets[i/nfirst]
			j := i % nfirst
			return map[string]any{"templates": c19SetNames(set), "prefix": c19HistString([]int{int(j) / c19NOps, int(j) % c19NOps}), "then": "every continuation"}
		},
		Run: func(c *core.Ctx, i int64) {
			set := statelessSets[i/nfirst]
			j := int(i % nfirst)
			memo := &c19Memo{set: set, m: map[string]map[int]string{}, c: c}
			pre := []int{j / c19NOps, j % c19NOps}
			if j%c19NOps == 0 { // histories of length 1 belong to the first case of each first-op
				c19Stateless(c, memo, set, pre[:1])
			}
			c19Stateless(c, memo, set, pre)
			rest := statelessLen - 2
			gen.Sequences(c19NOps, rest, func(seq []int) {
				h := append(append([]int{}, pre...), seq...)
				c19Stateless(c, memo, set, h)
			})
		}}

	bfs := core.Space{Name: fmt.Sprintf("bfs-len%d-3merges-reflective-state-key", bfsLen), N: int64(len(sets)), Chunk: 1,
		Desc: func(i int64) any { return map[string]any{"templates": c19SetNames(sets[i])} },
		Run: func(c *core.Ctx, i int64) {
			c19BFS(c, sets[i], bfsLen, 3)
		}}

	// model agreement on merges-only histories
	model := core.Space{Name: "documents-vs-model", N: int64(len(sets)), Chunk: 4,
		Desc: func(i int64) any { return map[string]any{"templates": c19SetNames(sets[i])} },
		Run: func(c *core.Ctx, i int64) {
			gen.Sequences(4, 3, func(seq []int) {
				c.Eval()
				c19Model(c, sets[i], append([]int{}, seq...))
			})
		}}

	return &core.Plan{
		Spaces: []core.Space{stateless, bfs, model, c19FreshSpace(), c19OutputCallsSpace()},
		Rule: "every history over {4 template merges, MergeFileLayers, Documents, Output(json), Output(yaml), OutputDocuments, OutputToWriter}: all histories up to the stateless length without de-duplication, " +
			"and a breadth-first search up to length 8 / 3 merges de-duplicated on a reflective dump of the whole Parser (unexported fields, pointer sharing). non-trivial = a history with at least one merge and one observation",
		Assumptions: []string{"the never-observed reference is the same implementation on a fresh parser given only the merges (differential), plus refStream for Documents()",
			"state after a failed merge is unspecified; such histories end there",
			"package-level variables of bkl are covered by the stateless enumeration (no de-duplication), not by the state key"},
		Bounds: map[string]any{"stateless_len": statelessLen, "bfs_len": bfsLen, "bfs_max_merges": 3, "template_sets": len(sets), "templates": len(c19Templates)},
	}
}
