package checks

import (
	"bytes"
	"crypto/sha256"
	"encoding/base64"
	"encoding/hex"
	"encoding/json"
	"fmt"
	"math"
	"sort"
	"strings"

	toml "github.com/pelletier/go-toml/v2"
	"gopkg.in/yaml.v3"
	"verif/core"
	"verif/gen"
	"verif/ref"
)

// C14 — $encode produces the named standard encodings and $decode inverts them.

func init() {
	core.Register(&core.Check{ID: "C14", Title: "$encode / $decode", Build: buildC14})
}

func c14Values() []any {
	m := func(kv ...any) map[string]any {
		r := map[string]any{}
		for i := 0; i+1 < len(kv); i += 2 {
			r[kv[i].(string)] = kv[i+1]
		}
		return r
	}
	l := func(v ...any) []any {
		if v == nil {
			return []any{}
		}
		return v
	}
	return []any{
		"a", "", "a b", "x=y", 1, 0, -3, 1.5, true, false,
		l(), l("a"), l("a", "b"), l(1, "a", true), l("", "x"), l(l("a"), l("b", "c")), l(l("a"), "b"), l(l(), l()), l(m("k", "v")), l(m("k", "v"), m("j", 1)), l(1.5, 2), l("a", l(l("b"))),
		m(), m("k", "v"), m("b", 1, "a", 2), m("k", ""), m("k", l("x", "y")), m("k", l(), "j", "v"), m("k", m("n", 1)), m("a", true, "b", 1.5, "c", "s"), m("k", l(1, "")),
		m("a", m("b", m("c", l(1, m("d", "e"))))), m("z", "1", "y", "true", "x", "null"), m("k", l(l("n"))),
		// text whose standard base64 uses + and /; zero values under tolist/flags
		"???", "x>>", "~~~", m("z", 0, "f", false, "e", "", "n", 0.0), l(m("z", 0), m("f", false)), m("k", l(0, false, "")),
		// integers around the 32/53/64-bit boundaries, floats that must stay floats
		2147483647, 2147483648, -2147483649, 9007199254740993, math.MaxInt64, math.MinInt64, 0.1, 1e21, 1e-7,
		m("big", 3000000000, "huge", 9007199254740993, "max", math.MaxInt64, "f", 0.1), l(2147483648, 4294967296, -2147483649),
		// long strings (chunked encoders) and list entries that are empty or end in the delimiter
		strings.Repeat("a", 1023), strings.Repeat("b", 1024), strings.Repeat("c", 1025), strings.Repeat("xyz~", 1000), l(strings.Repeat("q", 1500), "r"),
		l("a", "b", ""), l("", ""), l("a,", "b,"), l("a/", "/"), l("a", ""), l(",", ","), m("k", l("a", "b", "")),
		// percent signs (a value must never be used as a format string)
		"100%", "%d items", "%%", "%s%v%!", l("50%", "%x"), m("k", "%d"),
		// strings whose leading/trailing white space is part of the value (block scalars in YAML), also as the last leaf
		"x\n", "x\ny\n\n", " x ", "\n", m("k", "x\n"), m("a", 1, "k", "x\ny\n\n"), l("a", "b\n"), m("k", " lead"), m("k", "trail "), m("k", "\tx"), l("  "),
	}
}

var c14Transforms = []any{"base64", "sha256", "json", "json-pretty", "jsonl", "yaml", "yml", "toml", "join", "join:/", "join:a:b", "prefix:X", "prefix", "prefix:a:b",
	"flatten", "flatten:x", "tolist:=", "tolist", "tolist::", "values", "values:x", "flags", "flags:x", "bogus", "base64:x", "sha256:x", "json:x", 1, true}

type c14R struct {
	v     ref.Verdict
	val   any
	why   string
	parse string // "" exact value; else the format whose text must parse to val
}

func scalarText(v any) (string, bool) {
	switch x := v.(type) {
	case string:
		return x, true
	case int:
		return fmt.Sprint(x), true
	case float64:
		return fmt.Sprint(x), true
	case bool:
		return fmt.Sprint(x), true
	}
	return "", false
}

func jsonText(v any, pretty bool) string {
	var buf bytes.Buffer
	e := json.NewEncoder(&buf)
	e.SetEscapeHTML(false)
	if pretty {
		e.SetIndent("", "  ")
	}
	e.Encode(v)
	return buf.String()
}

// c14Apply is refEncode for one transform.
func c14Apply(v any, t any) c14R {
	ts, ok := t.(string)
	if !ok {
		return c14R{v: ref.Reject, why: "transform is not a string"}
	}
	parts := strings.Split(ts, ":")
	cmd := parts[0]
	argc := len(parts) - 1
	bad := c14R{v: ref.Reject, why: "malformed arguments"}
	switch cmd {
	case "base64", "sha256":
		if argc != 0 {
			return bad
		}
		s, ok := scalarText(v)
		if !ok {
			return c14R{v: ref.Unspec, why: cmd + " of a container"}
		}
		if cmd == "base64" {
			return c14R{val: base64.StdEncoding.EncodeToString([]byte(s))}
		}
		h := sha256.Sum256([]byte(s))
		return c14R{val: hex.EncodeToString(h[:])}
	case "json", "jsonl":
		if argc != 0 {
			return bad
		}
		return c14R{val: jsonText(v, false)}
	case "json-pretty":
		if argc != 0 {
			return bad
		}
		return c14R{val: jsonText(v, true)}
	case "yaml", "yml":
		if argc != 0 {
			return bad
		}
		return c14R{val: v, parse: "yaml"}
	case "toml":
		if argc != 0 {
			return bad
		}
		if _, ok := v.(map[string]any); !ok {
			return c14R{v: ref.Unspec, why: "toml of a non-map"}
		}
		if hasEmptyListOrMixed(v) {
			return c14R{v: ref.Unspec, why: "toml of mixed/empty arrays"}
		}
		return c14R{val: v, parse: "toml"}
	case "join":
		if argc > 1 {
			return bad
		}
		l, ok := v.([]any)
		if !ok {
			return c14R{v: ref.Reject, why: "join of a non-list"}
		}
		delim := ""
		if argc == 1 {
			delim = parts[1]
		}
		var ss []string
		for _, e := range l {
			s, ok := scalarText(e)
			if !ok {
				return c14R{v: ref.Unspec, why: "join of nested containers"}
			}
			ss = append(ss, s)
		}
		return c14R{val: strings.Join(ss, delim)}
	case "prefix":
		if argc != 1 {
			return bad
		}
		l, ok := v.([]any)
		if !ok {
			return c14R{v: ref.Reject, why: "prefix of a non-list"}
		}
		out := []any{}
		for _, e := range l {
			s, ok := scalarText(e)
			if !ok {
				return c14R{v: ref.Unspec, why: "prefix of nested containers"}
			}
			out = append(out, parts[1]+s)
		}
		return c14R{val: out}
	case "flatten":
		if argc != 0 {
			return bad
		}
		l, ok := v.([]any)
		if !ok {
			return c14R{v: ref.Reject, why: "flatten of a non-list"}
		}
		out := []any{}
		for _, e := range l {
			if el, ok := e.([]any); ok {
				out = append(out, el...)
			} else {
				out = append(out, e)
			}
		}
		return c14R{val: out}
	case "tolist":
		if argc != 1 {
			return bad
		}
		return c14ToList(v, parts[1])
	case "values":
		if argc != 0 {
			return bad
		}
		m, ok := v.(map[string]any)
		if !ok {
			return c14R{v: ref.Reject, why: "values of a non-map"}
		}
		out := []any{}
		for _, k := range core.SortedKeys(m) {
			out = append(out, m[k])
		}
		return c14R{val: out}
	case "flags":
		if argc != 0 {
			return bad // "malformed arguments are errors": flags takes none
		}
		r := c14ToList(v, "=")
		if r.v != ref.Accept {
			return r
		}
		return c14Apply(r.val, "prefix:--")
	default:
		if argc != 0 {
			return bad
		}
		return c14R{v: ref.Reject, why: "unknown format"}
	}
}

func hasEmptyListOrMixed(v any) bool {
	switch x := v.(type) {
	case map[string]any:
		for _, c := range x {
			if hasEmptyListOrMixed(c) {
				return true
			}
		}
	case []any:
		if len(x) == 0 {
			return true
		}
		kinds := map[string]bool{}
		for _, c := range x {
			kinds[fmt.Sprintf("%T", c)] = true
			if hasEmptyListOrMixed(c) {
				return true
			}
		}
		return len(kinds) > 1
	}
	return false
}

func c14ToList(v any, delim string) c14R {
	one := func(m map[string]any) ([]any, *c14R) {
		out := []any{}
		for _, k := range core.SortedKeys(m) {
			emit := func(e any) *c14R {
				s, ok := scalarText(e)
				if !ok {
					return &c14R{v: ref.Unspec, why: "tolist of nested containers"}
				}
				if s == "" {
					if _, isStr := e.(string); isStr {
						out = append(out, k)
						return nil
					}
				}
				out = append(out, k+delim+s)
				return nil
			}
			if l, ok := m[k].([]any); ok {
				for _, e := range l {
					if r := emit(e); r != nil {
						return nil, r
					}
				}
				continue
			}
			if r := emit(m[k]); r != nil {
				return nil, r
			}
		}
		return out, nil
	}
	switch x := v.(type) {
	case map[string]any:
		o, r := one(x)
		if r != nil {
			return *r
		}
		return c14R{val: o}
	case []any:
		out := []any{}
		for _, e := range x {
			m, ok := e.(map[string]any)
			if !ok {
				return c14R{v: ref.Reject, why: "tolist of a list with non-map entries"}
			}
			o, r := one(m)
			if r != nil {
				return *r
			}
			out = append(out, o...)
		}
		return c14R{val: out}
	}
	return c14R{v: ref.Reject, why: "tolist of a scalar"}
}

// c14Stack applies transforms left to right.
func c14Stack(v any, ts []any) c14R {
	cur := c14R{val: v}
	for i, t := range ts {
		if cur.parse != "" {
			return c14R{v: ref.Unspec, why: "transform after a yaml/toml text whose exact bytes are not fixed"}
		}
		cur = c14Apply(cur.val, t)
		if cur.v != ref.Accept {
			// a malformed later transform is an error whatever came before; an
			// unspecified earlier step makes the rest unspecified
			if cur.v == ref.Unspec {
				for _, t2 := range ts[i+1:] {
					if r := c14Apply("x", t2); r.v == ref.Reject && (r.why == "malformed arguments" || r.why == "unknown format" || r.why == "transform is not a string") {
						return r
					}
				}
			}
			return cur
		}
	}
	return cur
}

func c14ParseText(format, text string) (any, error) {
	switch format {
	case "yaml":
		var v any
		if err := yaml.Unmarshal([]byte(text), &v); err != nil {
			return nil, err
		}
		return c14Norm(v), nil
	case "toml":
		var v any
		if err := toml.Unmarshal([]byte(text), &v); err != nil {
			return nil, err
		}
		return c14Norm(v), nil
	case "json":
		d := json.NewDecoder(strings.NewReader(text))
		d.UseNumber()
		var v any
		if err := d.Decode(&v); err != nil {
			return nil, err
		}
		if d.More() {
			// exactly one document is expected wherever this is used: a second one is not "the same output"
			return nil, fmt.Errorf("more than one JSON document in the output")
		}
		return c14Norm(v), nil
	}
	return nil, fmt.Errorf("no parser for %s", format)
}

// c14Norm canonicalises decoder output (int64 -> int, json.Number, map[any]any).
func c14Norm(v any) any {
	switch x := v.(type) {
	case map[string]any:
		m := map[string]any{}
		for k, c := range x {
			m[k] = c14Norm(c)
		}
		return m
	case map[any]any:
		m := map[string]any{}
		for k, c := range x {
			m[fmt.Sprint(k)] = c14Norm(c)
		}
		return m
	case []any:
		l := make([]any, len(x))
		for i, c := range x {
			l[i] = c14Norm(c)
		}
		return l
	case int64:
		return int(x)
	case uint64:
		return int(x)
	case json.Number:
		if i, err := x.Int64(); err == nil {
			return int(i)
		}
		f, _ := x.Float64()
		return f
	default:
		return v
	}
}

func c14Forms(v any, enc any) map[string]any {
	forms := map[string]any{"value-form": map[string]any{"$encode": enc, "$value": core.Clone(v)}}
	switch x := v.(type) {
	case map[string]any:
		m := core.Clone(x).(map[string]any)
		m["$encode"] = enc
		forms["map-form"] = m
	case []any:
		forms["list-form"] = append(core.Clone(x).([]any), map[string]any{"$encode": enc})
	}
	return forms
}

func c14Check(c *core.Ctx, v any, ts []any) {
	var enc any = ts
	want := c14Stack(v, ts)
	encs := []any{enc}
	if len(ts) == 1 {
		encs = append(encs, ts[0]) // bare string as well as one-element list
	}
	for _, e := range encs {
		forms := c14Forms(v, e)
		names := make([]string, 0, len(forms))
		for n := range forms {
			names = append(names, n)
		}
		sort.Strings(names)
		for _, fname := range names {
			doc := map[string]any{"r": forms[fname]}
			c.Eval()
			c.Trans(2)
			got, err := evalTree(doc)
			wit := fmt.Sprintf("%s %s of %s", fname, core.Canon(e), core.Canon(v))
			if _, bare := e.([]any); !bare {
				if _, isStr := e.(string); !isStr {
					// a bare non-string transform ($encode: 1): must be an error
					c.Validated()
					if err == nil {
						c.Fail("refEncode", "non-string-transform-accepted", wit, map[string]any{"output": got})
						return
					}
					c.Outcome("rejected")
					continue
				}
			}
			switch want.v {
			case ref.Unspec:
				c.Unspec()
				c.Outcome("unspecified")
				continue
			case ref.Reject:
				c.Validated()
				c.NontrivialSub()
				if err == nil {
					c.Outcome("MALFORMED-ACCEPTED")
					c.Fail("refEncode", "malformed-accepted", wit, map[string]any{"model": want.why, "output": got})
					return
				}
				c.Outcome("rejected")
				continue
			}
			c.Validated()
			c.NontrivialSub()
			if err != nil {
				c.Outcome("WRONGLY-REJECTED")
				c.Fail("refEncode", "rejected", wit, map[string]any{"error": errStr(err), "want": want.val})
				return
			}
			if len(got) != 1 {
				c.Fail("refEncode", "wrong-shape", wit, map[string]any{"got": got})
				return
			}
			r := got[0].(map[string]any)["r"]
			if want.parse != "" {
				text, ok := r.(string)
				if !ok {
					c.Fail("refEncode", "not-text", wit, map[string]any{"got": r})
					return
				}
				pv, perr := c14ParseText(want.parse, text)
				if perr != nil || !core.EqualLoose(pv, want.val) {
					c.Outcome("TEXT-DOES-NOT-PARSE-BACK")
					c.Fail("refEncode", "text-does-not-parse-to-value", wit, map[string]any{"text": text, "parsed": pv, "want": want.val, "parse_error": fmt.Sprint(perr)})
					return
				}
				c.Outcome("text-parses-back")
				continue
			}
			c.State(core.Canon(r))
			if !core.Equal(r, want.val) {
				c.Outcome("WRONG-ENCODING")
				c.Fail("refEncode", "wrong-encoding", wit, map[string]any{"got": r, "want": want.val})
				return
			}
			c.Outcome("equal")
		}
	}
}

func c14RoundTrip(c *core.Ctx, v any, format string) {
	if format == "toml" {
		if _, ok := v.(map[string]any); !ok || hasEmptyListOrMixed(v) {
			return
		}
	}
	c.Eval()
	c.Trans(4)
	wit := fmt.Sprintf("decode(encode(%s)) as %s", core.Canon(v), format)
	enc, err := evalTree(map[string]any{"r": map[string]any{"$encode": format, "$value": core.Clone(v)}})
	if err != nil || len(enc) != 1 {
		c.Fail("decode-inverts-encode", "encode-failed", wit, errStr(err))
		return
	}
	text, ok := enc[0].(map[string]any)["r"].(string)
	if !ok {
		c.Fail("decode-inverts-encode", "encode-not-text", wit, enc)
		return
	}
	dec, err := evalTree(map[string]any{"r": map[string]any{"$decode": format, "$value": text}})
	c.Validated()
	c.NontrivialSub()
	if err != nil {
		c.Outcome("DECODE-FAILS")
		c.Fail("decode-inverts-encode", "decode-failed", wit, map[string]any{"text": text, "error": errStr(err)})
		return
	}
	want := []any{map[string]any{"r": v}}
	if v == nil {
		want = []any{map[string]any{}}
	}
	if !core.EqualIntsExact(dec, want) {
		c.Outcome("ROUND-TRIP-DIFFERS")
		c.Fail("decode-inverts-encode", "round-trip-differs", wit, map[string]any{"text": text, "got": dec, "want": want})
		return
	}
	// rendered in every output format the decoded value must read as the same data (no json.Number strings etc.)
	for _, out := range []string{"json", "yaml"} {
		p := newParser()
		d := map[string]any{"r": map[string]any{"$decode": format, "$value": text}}
		if err := p.MergeDocument(newDoc("d", d)); err != nil {
			continue
		}
		b, err := p.Output(out)
		if err != nil {
			c.Fail("decode-inverts-encode", "output-failed", wit+" -> "+out, errStr(err))
			return
		}
		pv, perr := c14ParseText(out, string(b))
		if perr != nil || !core.EqualIntsExact(pv, map[string]any{"r": v}) {
			c.Outcome("RENDERED-DIFFERS")
			c.Fail("decode-inverts-encode", "rendered-value-differs", wit+" -> "+out, map[string]any{"bytes": string(b), "parsed": pv, "want": v})
			return
		}
	}
	c.Outcome("round-trip-ok")
}

func buildC14(tier string) *core.Plan {
	vals := c14Values()
	nt := int64(len(c14Transforms))
	nv := int64(len(vals))
	single := core.Space{Name: "single-transform", N: nv * nt,
		Desc: func(i int64) any {
			return map[string]any{"value": vals[i/nt], "transforms": []any{c14Transforms[i%nt]}}
		},
		Run: func(c *core.Ctx, i int64) { c14Check(c, vals[i/nt], []any{c14Transforms[i%nt]}) }}
	double := core.Space{Name: "stacks-of-2", N: nv * nt * nt,
		Desc: func(i int64) any {
			return map[string]any{"value": vals[i/(nt*nt)], "transforms": []any{c14Transforms[(i/nt)%nt], c14Transforms[i%nt]}}
		},
		Run: func(c *core.Ctx, i int64) {
			c14Check(c, vals[i/(nt*nt)], []any{c14Transforms[(i/nt)%nt], c14Transforms[i%nt]})
		}}
	spaces := []core.Space{single, double}
	if tier != "" {
		// stacks of 3 over the well-formed transforms
		var good []any
		for _, t := range c14Transforms {
			if s, ok := t.(string); ok && c14Apply([]any{"a"}, s).why != "malformed arguments" && s != "bogus" {
				good = append(good, t)
			}
		}
		good = append(good, "bogus", "join:a:b")
		ng := int64(len(good))
		spaces = append(spaces, core.Space{Name: "stacks-of-3", N: nv * ng * ng * ng,
			Desc: func(i int64) any {
				return map[string]any{"value": vals[i/(ng*ng*ng)], "transforms": []any{good[(i/(ng*ng))%ng], good[(i/ng)%ng], good[i%ng]}}
			},
			Run: func(c *core.Ctx, i int64) {
				c14Check(c, vals[i/(ng*ng*ng)], []any{good[(i/(ng*ng))%ng], good[(i/ng)%ng], good[i%ng]})
			}})
	}
	formats := []string{"json", "json-pretty", "jsonl", "yaml", "yml", "toml"}
	nf := int64(len(formats))
	if tier == "thorough" {
		// stacks of 4 over the well-formed transforms, and decode(encode(v)) for every generated tree
		var good []any
		for _, t := range c14Transforms {
			if s, ok := t.(string); ok && c14Apply([]any{"a"}, s).why != "malformed arguments" && s != "bogus" {
				good = append(good, t)
			}
		}
		ng := int64(len(good))
		n4 := ng * ng * ng * ng
		spaces = append(spaces, core.Space{Name: "stacks-of-4", N: nv * n4,
			Desc: func(i int64) any {
				j := i % n4
				return map[string]any{"value": vals[i/n4], "transforms": []any{good[(j/(ng*ng*ng))%ng], good[(j/(ng*ng))%ng], good[(j/ng)%ng], good[j%ng]}}
			},
			Run: func(c *core.Ctx, i int64) {
				j := i % n4
				c14Check(c, vals[i/n4], []any{good[(j/(ng*ng*ng))%ng], good[(j/(ng*ng))%ng], good[(j/ng)%ng], good[j%ng]})
			}})
		ga := gen.Alphabet{Scalars: []any{0, -7, 1.5, "", "s", "1", "true", true, "a: b", "x\ny", "y\n", " z "}, Keys: []string{"a", "b c", "1"}, MaxList: 3, MaxMap: 2}
		trees := gen.Trees(ga, 4)
		ntr := int64(len(trees))
		spaces = append(spaces, core.Space{Name: "decode-inverts-encode-generated", N: ntr * nf,
			Desc: func(i int64) any { return map[string]any{"value": trees[i/nf], "format": formats[i%nf]} },
			Run:  func(c *core.Ctx, i int64) { c14RoundTrip(c, trees[i/nf], formats[i%nf]) }})
	}
	spaces = append(spaces, core.Space{Name: "decode-inverts-encode", N: nv * nf,
		Desc: func(i int64) any { return map[string]any{"value": vals[i/nf], "format": formats[i%nf]} },
		Run:  func(c *core.Ctx, i int64) { c14RoundTrip(c, vals[i/nf], formats[i%nf]) }})
	// infinite floats: representable in YAML (.inf) and TOML (inf), not in JSON
	infs := []any{math.Inf(1), math.Inf(-1), map[string]any{"v": math.Inf(1), "w": 1.5}, []any{math.Inf(-1), 0}}
	infFormats := []string{"yaml", "yml", "toml"}
	spaces = append(spaces, core.Space{Name: "decode-inverts-encode-infinite-floats", N: int64(len(infs) * len(infFormats)),
		Desc: func(i int64) any { return map[string]any{"value": fmt.Sprint(infs[i/3]), "format": infFormats[i%3]} },
		Run: func(c *core.Ctx, i int64) {
			v, format := infs[i/3], infFormats[i%3]
			if _, isMap := v.(map[string]any); format == "toml" && !isMap {
				return
			}
			c.Eval()
			c.Trans(4)
			wit := fmt.Sprintf("decode(encode(%v)) as %s", v, format)
			enc, err := evalTree(map[string]any{"r": map[string]any{"$encode": format, "$value": core.Clone(v)}})
			if err != nil || len(enc) != 1 {
				c.Fail("decode-inverts-encode", "encode-failed", wit, errStr(err))
				return
			}
			text, _ := enc[0].(map[string]any)["r"].(string)
			dec, err := evalTree(map[string]any{"r": map[string]any{"$decode": format, "$value": text}})
			c.Validated()
			c.Nontrivial()
			if err != nil {
				c.Outcome("DECODE-FAILS")
				c.Fail("decode-inverts-encode", "decode-failed", wit, map[string]any{"text": text, "error": errStr(err)})
				return
			}
			if len(dec) != 1 || fmt.Sprint(dec[0]) != fmt.Sprint(map[string]any{"r": v}) {
				c.Outcome("ROUND-TRIP-DIFFERS")
				c.Fail("decode-inverts-encode", "round-trip-differs", wit, map[string]any{"text": text, "got": fmt.Sprint(dec)})
				return
			}
			c.Outcome("round-trip-ok")
		}})
	// malformed decode arguments
	badDecode := []any{
		map[string]any{"$decode": "bogus", "$value": "{}"},
		map[string]any{"$decode": 1, "$value": "{}"},
		map[string]any{"$decode": "json"},
		map[string]any{"$decode": "json", "$value": 5},
		map[string]any{"$decode": "json", "$value": "{}", "extra": 1},
		map[string]any{"$decode": "json", "$value": "{"},
		map[string]any{"$decode": "json", "$value": "{} {}"},
		map[string]any{"$decode": "yaml", "$value": "a: [1"},
		map[string]any{"$decode": "toml", "$value": "a = "},
		map[string]any{"$decode": []any{"json"}, "$value": "{}"},
	}
	spaces = append(spaces, core.Space{Name: "malformed-decode", N: int64(len(badDecode)), Chunk: 2,
		Desc: func(i int64) any { return badDecode[i] },
		Run: func(c *core.Ctx, i int64) {
			c.Eval()
			c.Trans(2)
			got, err := evalTree(map[string]any{"r": badDecode[i]})
			c.Validated()
			c.Nontrivial()
			if err == nil {
				c.Fail("refDecode", "malformed-decode-accepted", core.Canon(badDecode[i]), got)
				return
			}
			c.Outcome("rejected")
		}})
	return &core.Plan{
		Spaces: spaces,
		Rule:   "75 values (scalars, long strings, lists with empty or delimiter-ended entries, strings with significant leading/trailing white space, flat/nested maps and lists, list-valued and empty-string entries) x every stack of <=2 of 29 transform spellings and of 3 (thorough: 4) well-formed ones (valid, malformed arguments, unknown, non-string) in map form, list-marker form and $value form; decode(encode(v)) for 6 formats (thorough: also for every tree of <=4 nodes over 10 scalars incl. number- and yaml-looking strings)",
		Assumptions: []string{"refEncode is built on crypto/sha256, encoding/base64, encoding/json and strings; yaml/toml text is judged by parsing it back with yaml.v3 / go-toml called directly (not through bkl) and comparing values",
			"not judged: base64/sha256 of containers, join/prefix/tolist over nested containers, toml of non-maps or of empty/mixed arrays, a transform applied to yaml/toml text (exact bytes not fixed)"},
		Bounds: map[string]any{"values": len(vals), "transforms": len(c14Transforms)},
	}
}
