package checks

import (
	"encoding/json"
	"fmt"
	"os"
	"os/exec"
	"path/filepath"
	"strings"

	"verif/core"
)

// C20 — bklb/kubectl-bkl rewrite only file arguments; all else passes through.

func init() {
	core.Register(&core.Check{ID: "C20", Title: "wrapper argument rewriting", Build: buildC20})
}

type c20Kind struct {
	Name string
	Arg  string
	// what the wrapper must do with it
	Resolves bool   // replaced by a temp file
	Format   string // format of the temp file content
	Fails    bool   // evaluation fails: wrapped program must not run
	Want     string // canonical expected documents
}

var c20Kinds = []c20Kind{
	{Name: "short-flag", Arg: "-x"},
	{Name: "opt=value", Arg: "--opt=v"},
	{Name: "opt=file.yaml", Arg: "--opt=a.yaml"},
	{Name: "word", Arg: "apply"},
	{Name: "dash", Arg: "-"},
	{Name: "non-bkl-file", Arg: "n.txt"},
	{Name: "layer-file", Arg: "a.b.yaml", Resolves: true, Format: "yaml", Want: `[{"l":[1,2],"x":1,"y":2}]`},
	{Name: "virtual-json", Arg: "a.b.json", Resolves: true, Format: "json", Want: `[{"l":[1,2],"x":1,"y":2}]`},
	{Name: "unsupported-ext", Arg: "a.b.ini"},
	{Name: "failing-layer", Arg: "bad.yaml", Fails: true},
	{Name: "toml-stream", Arg: "s.toml", Resolves: true, Format: "toml", Want: `[{"k":1},{"k":2}]`},
	{Name: "missing.yaml", Arg: "nope.yaml"},
	{Name: "empty-arg", Arg: ""},
	{Name: "arg-with-space-tab-unicode", Arg: "two words\tna\u00efve=\u00e9"},
	{Name: "double-dash", Arg: "--"},
	{Name: "yml-layer", Arg: "y.z.yml", Resolves: true, Format: "yml", Want: `[{"p":1,"q":2}]`},
	{Name: "virtual-of-yml", Arg: "y.z.toml", Resolves: true, Format: "toml", Want: `[{"p":1,"q":2}]`},
	{Name: "json-layer-as-yaml", Arg: "j.yaml", Resolves: true, Format: "yaml", Want: `[{"j":[1,"x"]}]`},
	// evaluation failures of other kinds than a missing required value
	{Name: "failing-missing-parent-layer", Arg: "orphan.child.yaml", Fails: true},
	{Name: "failing-type-clash", Arg: "t.u.yaml", Fails: true},
	{Name: "failing-unparsable", Arg: "broken.yaml", Fails: true},
	// two files with the same base name in different directories
	{Name: "dir1-values", Arg: "d1/v.yaml", Resolves: true, Format: "yaml", Want: `[{"from":"d1"}]`},
	{Name: "dir2-values", Arg: "d2/v.yaml", Resolves: true, Format: "yaml", Want: `[{"from":"d2"}]`},
	// names holding glob metacharacters, and a symlink to a layer (by its real and by a virtual name)
	{Name: "bracket-name", Arg: "conf[1].yaml", Resolves: true, Format: "yaml", Want: `[{"br":1}]`},
	{Name: "star-name", Arg: "st*r.yaml", Resolves: true, Format: "yaml", Want: `[{"st":1}]`},
	{Name: "symlink-to-layer", Arg: "link.yaml", Resolves: true, Format: "yaml", Want: `[{"l":[1,2],"x":1,"y":2}]`},
	{Name: "symlink-to-layer-virtual", Arg: "link.json", Resolves: true, Format: "json", Want: `[{"l":[1,2],"x":1,"y":2}]`},
	// a file argument spelt with a very long path (8 directory levels, about 250 bytes)
	{Name: "very-long-path", Arg: c20LongDir + "/deep.yaml", Resolves: true, Format: "yaml", Want: `[{"deep":1}]`},
}

var c20LongDir = strings.Repeat("d23456789012345678901234567890/", 8)[:8*31-1]

func c20Setup(dir string) error {
	files := map[string]string{
		"a.yaml":                  "x: 1\nl: [1]\n",
		"a.b.yaml":                "y: 2\nl: [2]\n",
		"a.b.ini":                 "y=2\n",
		"n.txt":                   "hello\n",
		"bad.yaml":                "r: $required\n",
		"s.yaml":                  "k: 1\n---\nk: 2\n",
		"y.yml":                   "p: 1\n",
		"y.z.yml":                 "q: 2\n",
		"j.json":                  "{\"j\": [1, \"x\"]}\n",
		"orphan.child.yaml":       "o: 1\n",
		"t.yaml":                  "l: [1]\n",
		"t.u.yaml":                "l: {a: 1}\n",
		"broken.yaml":             "a: [\n",
		"d1/v.yaml":               "from: d1\n",
		"d2/v.yaml":               "from: d2\n",
		"conf[1].yaml":            "br: 1\n",
		"st*r.yaml":               "st: 1\n",
		c20LongDir + "/deep.yaml": "deep: 1\n",
	}
	os.Symlink("a.b.yaml", filepath.Join(dir, "link.yaml"))
	for n, c := range files {
		os.MkdirAll(filepath.Dir(filepath.Join(dir, n)), 0o755)
		if err := os.WriteFile(filepath.Join(dir, n), []byte(c), 0o644); err != nil {
			return err
		}
	}
	return nil
}

var c20BinDir string

// c20Bins prepares (once per worker) a PATH directory holding the stand-ins
// and the invocation symlinks.
func c20Bins() (string, error) {
	if c20BinDir != "" {
		return c20BinDir, nil
	}
	d := filepath.Join(core.WorkDir(), "fs", fmt.Sprintf("c20bin-%d", os.Getpid()))
	os.MkdirAll(d, 0o755)
	bin := filepath.Join(core.WorkDir(), "bin")
	for _, l := range [][2]string{{"standin", "rec"}, {"standin", "kubectl"}, {"standin", "stub"}, {"bklb", "recb"}, {"bklb", "stubb"}, {"kubectl-bkl", "kubectl-bkl"}} {
		os.Remove(filepath.Join(d, l[1]))
		if err := os.Symlink(filepath.Join(bin, l[0]), filepath.Join(d, l[1])); err != nil {
			return "", err
		}
	}
	c20BinDir = d
	return d, nil
}

func c20Run(c *core.Ctx, invoke string, kinds []int) {
	bins, err := c20Bins()
	if err != nil {
		c.Fail("harness", "bins", invoke, err.Error())
		return
	}
	dir := scratchDir()
	defer os.RemoveAll(dir)
	tmp := filepath.Join(dir, "tmp")
	os.MkdirAll(tmp, 0o755)
	work := filepath.Join(dir, "w")
	os.MkdirAll(work, 0o755)
	if err := c20Setup(work); err != nil {
		return
	}
	var args []string
	anyFails := false
	for _, k := range kinds {
		args = append(args, c20Kinds[k].Arg)
		if c20Kinds[k].Fails {
			anyFails = true
		}
	}
	recOut := filepath.Join(dir, "rec.json")
	cmd := exec.Command(filepath.Join(bins, invoke), args...)
	cmd.Dir = work
	cmd.Env = []string{"PATH=" + bins, "TMPDIR=" + tmp, "REC_OUT=" + recOut, "HOME=/root"}
	c.Eval()
	c.Trans(1)
	err = runWithWatchdog(cmd)
	code := 0
	if err != nil {
		if ee, ok := err.(*exec.ExitError); ok {
			code = ee.ExitCode()
		} else {
			c.Fail("harness", "cannot-run", invoke, err.Error())
			return
		}
	}
	wit := invoke + " " + strings.Join(args, " ")
	c.Validated()
	recBytes, rerr := os.ReadFile(recOut)
	if anyFails {
		c.Nontrivial()
		if rerr == nil {
			c.Outcome("RAN-DESPITE-FAILURE")
			c.Fail("failing-file-stops-everything", "wrapped-program-ran", wit, string(recBytes))
			return
		}
		if code == 0 {
			c.Outcome("FAILURE-EXIT-0")
			c.Fail("failing-file-stops-everything", "exit-status-0", wit, nil)
			return
		}
		c.Outcome("not-run-on-failure")
		return
	}
	if rerr != nil || code != 0 {
		c.Outcome("WRAPPED-PROGRAM-NOT-RUN")
		c.Fail("passes-through", "wrapped-program-not-run", wit, map[string]any{"exit": code})
		return
	}
	var rec struct {
		Args  []string          `json:"args"`
		Files map[string]string `json:"files"`
	}
	if err := json.Unmarshal(recBytes, &rec); err != nil {
		c.Fail("harness", "bad-record", wit, string(recBytes))
		return
	}
	if len(rec.Args) != len(args) {
		c.Outcome("ARG-COUNT-CHANGED")
		c.Fail("passes-through", "argument-count-changed", wit, rec.Args)
		return
	}
	for i, k := range kinds {
		kd := c20Kinds[k]
		got := rec.Args[i]
		if !kd.Resolves {
			if got != kd.Arg {
				c.Outcome("ARG-MODIFIED")
				c.Fail("passes-through", "non-file-argument-modified", wit, map[string]any{"position": i, "sent": kd.Arg, "received": got})
				return
			}
			continue
		}
		c.Nontrivial()
		if got == kd.Arg {
			c.Outcome("FILE-ARG-NOT-REPLACED")
			c.Fail("file-arguments-replaced", "not-replaced", wit, map[string]any{"position": i, "arg": got})
			return
		}
		content, ok := rec.Files[got]
		if !ok {
			c.Outcome("REPLACEMENT-NOT-A-FILE")
			c.Fail("file-arguments-replaced", "replacement-not-readable", wit, map[string]any{"position": i, "arg": got})
			return
		}
		var docs []any
		var perr error
		switch kd.Format {
		case "json":
			docs, perr = parseJSONStream(content)
		case "yaml", "yml":
			var v any
			v, perr = c14ParseText("yaml", content)
			docs = []any{v}
		case "toml":
			for _, part := range strings.Split(content, "---\n") {
				v, e := c14ParseText("toml", part)
				if e != nil {
					perr = e
				}
				docs = append(docs, v)
			}
		}
		if perr != nil || core.CanonLoose(docs) != kd.Want {
			c.Outcome("WRONG-CONTENT")
			c.Fail("file-arguments-replaced", "content-is-not-the-evaluated-layers", wit, map[string]any{"position": i, "content": content, "want": kd.Want})
			return
		}
	}
	c.State(strings.Join(rec.Args, "\x00"))
	c.Outcome("ok")
}

func buildC20(tier string) *core.Plan {
	nk := len(c20Kinds)
	maxLen := 3
	if tier == "thorough" {
		maxLen = 4
	}
	var vecs [][]int
	vecs = append(vecs, []int{})
	// the longest vectors range over the 18 core kinds, shorter ones over all kinds
	const coreKinds = 18
	for l := 1; l <= maxLen; l++ {
		idx := make([]int, l)
		lim := nk
		if l == maxLen {
			lim = coreKinds
		}
		var rec func(i int)
		rec = func(i int) {
			if i == l {
				vecs = append(vecs, append([]int{}, idx...))
				return
			}
			for k := 0; k < lim; k++ {
				idx[i] = k
				rec(i + 1)
			}
		}
		rec(0)
	}
	// longer vectors: flags everywhere, at most two non-flag arguments at any positions
	nonFlag := []int{}
	for k := range c20Kinds {
		if k >= 2 {
			nonFlag = append(nonFlag, k)
		}
	}
	var long [][]int
	for l := 5; l <= 8; l++ {
		base := make([]int, l)
		for i := range base {
			base[i] = i % 2
		}
		long = append(long, append([]int{}, base...))
		for p := 0; p < l; p++ {
			for _, a := range nonFlag {
				v := append([]int{}, base...)
				v[p] = a
				long = append(long, v)
				if tier == "thorough" {
					for q := p + 1; q < l; q++ {
						for _, b := range nonFlag {
							w := append([]int{}, v...)
							w[q] = b
							long = append(long, w)
						}
					}
				}
			}
		}
	}
	all := append(vecs, long...)
	invs := []string{"recb", "kubectl-bkl", "stubb"}
	desc := func(v []int) []string {
		var s []string
		for _, k := range v {
			s = append(s, c20Kinds[k].Arg)
		}
		return s
	}
	sp := core.Space{Name: "argv-vectors", N: int64(len(all)) * 2,
		Desc: func(i int64) any { return map[string]any{"invoked_as": invs[i%2], "args": desc(all[i/2])} },
		Run:  func(c *core.Ctx, i int64) { c20Run(c, invs[i%2], all[i/2]) }}
	// a wrapped tool whose own name ends in "b" (stubb wraps stub): short vectors only
	var short [][]int
	for _, v := range all {
		if len(v) <= 2 {
			short = append(short, v)
		}
	}
	spB := core.Space{Name: "tool-name-ending-in-b", N: int64(len(short)),
		Desc: func(i int64) any { return map[string]any{"invoked_as": "stubb", "args": desc(short[i])} },
		Run:  func(c *core.Ctx, i int64) { c20Run(c, "stubb", short[i]) }}
	return &core.Plan{
		Spaces: []core.Space{sp, spB},
		Rule: fmt.Sprintf("every argument vector of length 0..max-1 over %d argument kinds and of length max over the first 18 (short flag, --opt=value, --opt=file.yaml, word, -, existing non-bkl file, existing layer file, virtual name of another format, unsupported extension, four kinds of layers whose evaluation fails, multi-document layer requested as TOML, missing .yaml name, empty and blank/unicode arguments, --, .yml- and .json-backed layers, the same base name in two directories, names with glob metacharacters, a symlink to a layer by its real and a virtual name), ", nk) +
			"and vectors of length 5-8 of flags with one (thorough: two) non-flag argument(s) at every position; each invoked as recb (symlink to bklb) and as kubectl-bkl, with a recording stand-in on PATH",
		Assumptions: []string{"the stand-in records argv and the content of every argument naming a regular file; file-argument content is parsed with encoding/json, yaml.v3 and go-toml called directly and compared with the known evaluated layers"},
		Bounds:      map[string]any{"max_len_full": maxLen, "vectors": len(all), "kinds": nk},
	}
}
