package checks

import (
	"fmt"
	"math"
	"os"
	"path/filepath"
	"sort"
	"strings"

	"github.com/gopatchy/bkl"
	"verif/core"
	"verif/emit"
	"verif/gen"
	"verif/ref"
	"verif/toolcopy/bkli"
	"verif/toolcopy/bklr"
)

// C16 — bkli yields the maximal common base, and the migrate workflow is lossless.
// C17 — bklr keeps exactly the $required skeleton and agrees with bkl on what is missing.

func init() {
	core.Register(&core.Check{ID: "C16", Title: "bkli maximal common base", Build: buildC16})
	core.Register(&core.Check{ID: "C17", Title: "bklr required skeleton", Build: buildC17})
}

// c16Intersect mirrors cmd/bkli/main.go: doc = first; doc = intersect(next, doc).
func c16Intersect(inputs []any) (res any, err error) {
	defer func() {
		if r := recover(); r != nil {
			err = fmt.Errorf("bkli fatal: %v", r)
		}
	}()
	doc := core.Clone(inputs[0])
	for _, in := range inputs[1:] {
		doc, err = bkli.Intersect(core.Clone(in), doc)
		if err != nil {
			return nil, err
		}
	}
	return doc, nil
}

func msCount(l []any) map[string]int {
	m := map[string]int{}
	for _, e := range l {
		m[core.Canon(e)]++
	}
	return m
}

// c16Common checks commonality and maximality of r against all inputs at one
// position; returns a description of the first problem or "".
func c16Common(r any, inputs []any, path string) string {
	if s, ok := r.(string); ok && s == "$required" {
		// must differ somewhere: not all inputs equal here
		allEq := true
		for _, in := range inputs[1:] {
			if !core.Equal(in, inputs[0]) {
				allEq = false
			}
		}
		if allEq {
			return path + ": $required although every input holds " + core.Canon(inputs[0])
		}
		return ""
	}
	switch x := r.(type) {
	case map[string]any:
		var ims []map[string]any
		for _, in := range inputs {
			m, ok := in.(map[string]any)
			if !ok {
				return path + ": result is a map but an input is not"
			}
			ims = append(ims, m)
		}
		// commonality: every result key is in every input
		for _, k := range core.SortedKeys(x) {
			var sub []any
			for _, m := range ims {
				v, ok := m[k]
				if !ok {
					return path + "." + k + ": key not present in every input"
				}
				sub = append(sub, v)
			}
			if p := c16Common(x[k], sub, path+"."+k); p != "" {
				return p
			}
		}
		// maximality: every key present in all inputs is in the result
		for _, k := range core.SortedKeys(ims[0]) {
			inAll := true
			for _, m := range ims[1:] {
				if _, ok := m[k]; !ok {
					inAll = false
				}
			}
			if _, ok := x[k]; inAll && !ok {
				return path + "." + k + ": shared key dropped"
			}
		}
		return ""
	case []any:
		var ils [][]any
		for _, in := range inputs {
			l, ok := in.([]any)
			if !ok {
				return path + ": result is a list but an input is not"
			}
			ils = append(ils, l)
		}
		// expected multiset = minimum count over inputs
		want := msCount(ils[0])
		for _, l := range ils[1:] {
			c := msCount(l)
			for k := range want {
				if c[k] < want[k] {
					want[k] = c[k]
				}
			}
		}
		total := 0
		for k, n := range want {
			if n == 0 {
				delete(want, k)
			}
			total += n
		}
		got := msCount(x)
		if total == 0 {
			allEmpty := true
			for _, l := range ils {
				if len(l) > 0 {
					allEmpty = false
				}
			}
			if allEmpty {
				if len(x) != 0 {
					return path + ": empty lists intersect to " + core.Canon(x)
				}
				return ""
			}
			if core.Canon(x) != `["$required"]` {
				return path + ": lists with nothing in common should be [$required], got " + core.Canon(x)
			}
			return ""
		}
		if len(got) != len(want) {
			return path + ": list entries " + core.Canon(x) + " are not the common multiset"
		}
		for k, n := range want {
			if got[k] != n {
				return path + ": list entries " + core.Canon(x) + " are not the common multiset"
			}
		}
		return ""
	default:
		for _, in := range inputs {
			if !core.Equal(in, r) {
				return path + ": value " + core.Canon(r) + " does not occur in every input"
			}
		}
		return ""
	}
}

func c16Check(c *core.Ctx, inputs []any) {
	c.Eval()
	c.Trans(len(inputs))
	wit := core.Canon(inputs)
	res, err := c16Intersect(inputs)
	c.Validated()
	if err != nil {
		c.Fail("bkli", "fails", wit, errStr(err))
		return
	}
	c.State(core.Canon(res))
	if p := c16Common(res, inputs, "$"); p != "" {
		c.Outcome("NOT-MAXIMAL-COMMON")
		c.Fail("common-and-maximal", "violated", wit, map[string]any{"result": res, "problem": p})
		return
	}
	allEq := true
	for _, in := range inputs[1:] {
		if !core.Equal(in, inputs[0]) {
			allEq = false
		}
	}
	if allEq && !core.Equal(res, inputs[0]) {
		c.Outcome("NOT-IDEMPOTENT")
		c.Fail("self-intersection", "not-identity", wit, map[string]any{"result": res})
		return
	}
	if !allEq {
		c.Nontrivial()
	}
	// migrate: for each input, base + bkld(base, input) == input
	for _, in := range inputs {
		c.Trans(3)
		layer, err := c15Diff(res, in)
		if err != nil {
			c.Outcome("MIGRATE-FAILS")
			c.Fail("migrate-lossless", "bkld-fails", wit, map[string]any{"base": res, "input": in, "error": errStr(err)})
			return
		}
		got, err := c15Apply(res, layer)
		wantIn := []any{in}
		if outs, eerr := evalTree(in); eerr == nil {
			wantIn = outs // what the input evaluates to (escaped dollars come out unescaped)
		}
		if err != nil || !core.Equal(got, wantIn) {
			c.Outcome("MIGRATE-LOSSY")
			c.Fail("migrate-lossless", "input-not-reproduced", wit, map[string]any{"base": res, "input": in, "layer": layer, "got": got, "error": errStr(err)})
			return
		}
	}
	c.Outcome("ok")
}

func buildC16(tier string) *core.Plan {
	n, n3 := 4, 2
	if tier == "thorough" {
		n3 = 3
	}
	trees := c15Trees(n)
	nt := int64(len(trees))
	pairs := core.Space{Name: fmt.Sprintf("pairs-%d-nodes", n), N: nt * nt,
		Desc: func(i int64) any { return []any{trees[i/nt], trees[i%nt]} },
		Run:  func(c *core.Ctx, i int64) { c16Check(c, []any{trees[i/nt], trees[i%nt]}) }}
	small := c15Trees(n3)
	ns := int64(len(small))
	triples := core.Space{Name: fmt.Sprintf("triples-%d-nodes", n3), N: ns * ns * ns,
		Desc: func(i int64) any { return []any{small[i/(ns*ns)], small[(i/ns)%ns], small[i%ns]} },
		Run: func(c *core.Ctx, i int64) {
			c16Check(c, []any{small[i/(ns*ns)], small[(i/ns)%ns], small[i%ns]})
		}}
	spaces := []core.Space{pairs, triples}
	if tier == "thorough" {
		// (all 130 M pairs of 5-node trees would take hours: the fifth node is explored on one side)
		big, lil := c15Trees(5), c15Trees(3)
		nb, nl5 := int64(len(big)), int64(len(lil))
		spaces = append(spaces, core.Space{Name: "pairs-5-nodes-with-3-nodes-both-orders", N: nb * nl5,
			Desc: func(i int64) any { return []any{big[i/nl5], lil[i%nl5]} },
			Run: func(c *core.Ctx, i int64) {
				c16Check(c, []any{big[i/nl5], lil[i%nl5]})
				c16Check(c, []any{lil[i%nl5], big[i/nl5]})
			}})
	}
	// lists with repeated entries
	entries := []any{1, 2, map[string]any{"a": 1}, map[string]any{"a": 1, "b": 2}}
	var lists []any
	lists = append(lists, []any{})
	for _, a := range entries {
		lists = append(lists, []any{a})
		for _, b := range entries {
			lists = append(lists, []any{a, b})
			for _, d := range entries {
				lists = append(lists, []any{a, b, d})
			}
		}
	}
	nl := int64(len(lists))
	spaces = append(spaces, core.Space{Name: "list-pairs", N: nl * nl,
		Desc: func(i int64) any { return []any{map[string]any{"l": lists[i/nl]}, map[string]any{"l": lists[i%nl]}} },
		Run: func(c *core.Ctx, i int64) {
			c16Check(c, []any{map[string]any{"l": lists[i/nl], "k": 1}, map[string]any{"l": lists[i%nl], "k": 1}})
		}})
	// scalars of other kinds, values that print alike, escaped dollars: "equal" means the same value
	ka := gen.Alphabet{Scalars: []any{1, "1", true, "true", "", 1.5, -2, "$$x", "$$required", false, 0, 0.0}, Keys: []string{"a", "b c", "$$k"}, MaxList: 2, MaxMap: 2}
	kt := gen.Filter(gen.Trees(ka, 3), gen.IsMap)
	nkt := int64(len(kt))
	spaces = append(spaces, core.Space{Name: "pairs-other-scalar-kinds", N: nkt * nkt,
		Desc: func(i int64) any { return []any{kt[i/nkt], kt[i%nkt]} },
		Run:  func(c *core.Ctx, i int64) { c16Check(c, []any{kt[i/nkt], kt[i%nkt]}) }})
	// lists wider than any small-size fast path, with duplicates and print-alike entries
	wideA, wideB := []any{}, []any{}
	for i := 0; i < 40; i++ {
		wideA = append(wideA, i%7)
		wideB = append(wideB, (i*3)%11)
	}
	wideC := append(append([]any{}, wideA...), "1", 1, "1", map[string]any{"k": 1}, map[string]any{"k": 1})
	wides := []any{wideA, wideB, wideC, []any{}, []any{1}}
	nwd := int64(len(wides))
	spaces = append(spaces, core.Space{Name: "wide-list-pairs", N: nwd * nwd,
		Desc: func(i int64) any {
			return map[string]any{"lengths": []int{len(wides[i/nwd].([]any)), len(wides[i%nwd].([]any))}}
		},
		Run: func(c *core.Ctx, i int64) {
			c16Check(c, []any{map[string]any{"l": wides[i/nwd], "k": 1}, map[string]any{"l": wides[i%nwd], "k": 1}})
			c16Check(c, []any{map[string]any{"l": wides[i/nwd]}, map[string]any{"l": wides[i%nwd]}, map[string]any{"l": wides[(i+1)%nwd]}})
		}})
	if tier == "thorough" {
		tiny := c15Trees(2)
		n4 := int64(len(tiny))
		spaces = append(spaces, core.Space{Name: "quadruples-2-nodes", N: n4 * n4 * n4 * n4,
			Desc: func(i int64) any { return []any{tiny[i/(n4*n4*n4)], tiny[(i/(n4*n4))%n4], tiny[(i/n4)%n4], tiny[i%n4]} },
			Run: func(c *core.Ctx, i int64) {
				c16Check(c, []any{tiny[i/(n4*n4*n4)], tiny[(i/(n4*n4))%n4], tiny[(i/n4)%n4], tiny[i%n4]})
			}})
	}
	// CLI: argument order, formats, bkli | bkld | bkl
	cliTrees := c15Trees(3)
	nc := int64(len(cliTrees))
	fm := []string{"json", "yaml", "toml"}
	spaces = append(spaces, core.Space{Name: "cli-migrate", N: nc * nc,
		Desc: func(i int64) any { return []any{cliTrees[i/nc], cliTrees[i%nc]} },
		Run: func(c *core.Ctx, i int64) {
			a, b := cliTrees[i/nc], cliTrees[i%nc]
			fa, fb := fm[i%3], fm[(i/3)%3]
			dir := scratchDir()
			defer os.RemoveAll(dir)
			if writeDoc(dir, "a."+fa, fa, a) != nil || writeDoc(dir, "b."+fb, fb, b) != nil {
				return
			}
			wit := fmt.Sprintf("cli %s/%s: %s", fa, fb, core.Canon([]any{a, b}))
			c.Eval()
			c.Trans(4)
			os.MkdirAll(filepath.Join(dir, "o"), 0o755)
			os.WriteFile(filepath.Join(dir, "o", "base.yaml"), []byte(strings.Repeat("stale: entry that must not survive\n", 30)), 0o644)
			_, se, code, err := runTool(dir, "bkli", "-o", "o/base.yaml", "a."+fa, "b."+fb)
			c.Validated()
			if err != nil || code != 0 {
				c.Fail("cli-migrate", "bkli-fails", wit, se)
				return
			}
			so, _, _, _ := runTool(dir, "bkli", "-f", "json", "a."+fa, "b."+fb)
			res, perr := c14ParseText("json", so)
			want, _ := c16Intersect([]any{a, b})
			if perr != nil || !core.EqualLoose(res, want) {
				c.Fail("cli-migrate", "cli-differs-from-library", wit, map[string]any{"stdout": so, "want": want})
				return
			}
			for _, in := range []string{"a." + fa, "b." + fb} {
				_, se, code, _ := runTool(dir, "bkld", "-o", "o/base."+in[:1]+".yaml", "o/base.yaml", in)
				if code != 0 {
					c.Fail("cli-migrate", "bkld-fails", wit, se)
					return
				}
				so, se, code, _ := runTool(dir, "bkl", "-f", "json", "o/base."+in[:1]+".yaml")
				if code != 0 {
					c.Fail("cli-migrate", "bkl-rejects-migrated-layer", wit, se)
					return
				}
				got, perr := c14ParseText("json", so)
				orig := a
				if in[:1] == "b" {
					orig = b
				}
				if perr != nil || !core.EqualLoose(got, orig) {
					c.Fail("cli-migrate", "migrated-file-differs", wit, map[string]any{"stdout": so, "want": orig})
					return
				}
			}
			c.Outcome("cli-migrate-ok")
		}})
	// three inputs through the real command line (the fold over the arguments lives in main.go)
	t3 := c15Trees(2)
	n3c := int64(len(t3))
	spaces = append(spaces, core.Space{Name: "cli-three-inputs", N: n3c * n3c * n3c,
		Desc: func(i int64) any { return []any{t3[i/(n3c*n3c)], t3[(i/n3c)%n3c], t3[i%n3c]} },
		Run: func(c *core.Ctx, i int64) {
			ins := []any{t3[i/(n3c*n3c)], t3[(i/n3c)%n3c], t3[i%n3c]}
			dir := scratchDir()
			defer os.RemoveAll(dir)
			names := []string{"a.yaml", "b.json", "c.toml"}
			exts := []string{"yaml", "json", "toml"}
			switch i % 3 {
			case 1:
				// the same file name in three directories
				names, exts = []string{"prod/config.yaml", "staging/config.yaml", "dev/config.yaml"}, []string{"yaml", "yaml", "yaml"}
			case 2:
				names = []string{"x/in.yaml", "y/in.json", "in.toml"}
			}
			for k, d := range ins {
				os.MkdirAll(filepath.Dir(filepath.Join(dir, names[k])), 0o755)
				if writeDoc(filepath.Dir(filepath.Join(dir, names[k])), filepath.Base(names[k]), exts[k], d) != nil {
					return
				}
			}
			c.Eval()
			c.Trans(1)
			so, se, code, err := runTool(dir, "bkli", "-f", "json", names[0], names[1], names[2])
			wit := "cli three inputs: " + core.Canon(ins)
			c.Validated()
			if err != nil || code != 0 {
				c.Fail("cli-three-inputs", "bkli-fails", wit, se)
				return
			}
			got, perr := c14ParseText("json", so)
			if perr != nil {
				c.Fail("cli-three-inputs", "unparsable", wit, so)
				return
			}
			if p := c16Common(got, ins, "$"); p != "" {
				c.Outcome("NOT-MAXIMAL-COMMON")
				c.Fail("common-and-maximal", "violated", wit, map[string]any{"result": got, "problem": p})
				return
			}
			if !core.Equal(ins[0], ins[1]) || !core.Equal(ins[1], ins[2]) {
				c.Nontrivial()
			}
			c.Outcome("cli-three-ok")
		}})
	// the same document in two formats: self-intersection across formats, boundary numbers included
	numDocs := []any{
		map[string]any{"quota": 3000000000, "sizes": []any{1, 4294967296}, "f": 0.1, "max": math.MaxInt64, "neg": -2147483649},
		map[string]any{"a": map[string]any{"n": 2147483648, "l": []any{map[string]any{"k": 9007199254740993}}}, "s": "x"},
		map[string]any{"small": 1, "list": []any{1, 2, 2}, "fl": 1.5},
	}
	spaces = append(spaces, core.Space{Name: "cli-same-document-across-formats", N: int64(len(numDocs) * 9), Chunk: 1,
		Desc: func(i int64) any {
			return map[string]any{"doc": numDocs[i/9], "formats": []string{fm[i%3], fm[(i/3)%3]}}
		},
		Run: func(c *core.Ctx, i int64) {
			d := numDocs[i/9]
			fa, fb := fm[i%3], fm[(i/3)%3]
			dir := scratchDir()
			defer os.RemoveAll(dir)
			ta, ok1 := emit.Stream(map[string]string{"json": "json", "yaml": "yaml-block", "toml": "toml-tables"}[fa], []any{d})
			tb, ok2 := emit.Stream(map[string]string{"json": "json", "yaml": "yaml-flow", "toml": "toml-inline"}[fb], []any{d})
			if !ok1 || !ok2 {
				return
			}
			os.WriteFile(filepath.Join(dir, "a."+fa), []byte(ta), 0o644)
			os.WriteFile(filepath.Join(dir, "b."+fb), []byte(tb), 0o644)
			c.Eval()
			c.Trans(1)
			so, se, code, err := runTool(dir, "bkli", "-f", "json", "a."+fa, "b."+fb)
			wit := fmt.Sprintf("cli self-intersection %s/%s: %s", fa, fb, core.Canon(d))
			c.Validated()
			c.Nontrivial()
			if err != nil || code != 0 {
				c.Fail("self-intersection", "bkli-fails", wit, se)
				return
			}
			got, perr := c14ParseText("json", so)
			if perr != nil || !core.EqualIntsExact(got, d) {
				c.Outcome("CROSS-FORMAT-NOT-IDENTITY")
				c.Fail("self-intersection", "not-identity-across-formats", wit, map[string]any{"stdout": so})
				return
			}
			c.Outcome("cross-format-identity")
		}})
	return &core.Plan{
		Spaces: spaces,
		Rule:   "every ordered pair of map-rooted, null-free, $-free trees up to 4 nodes (both argument orders are in the product; thorough: also every tree up to 5 nodes with every tree up to 3 nodes, in both orders), every triple up to 3 nodes, (thorough) every quadruple up to 2 nodes, list pairs with repeated and subset entries; CLI migrate workflow (bkli, bkld, bkl with filename inheritance) in format mixes",
		Assumptions: []string{"commonality/maximality are checked structurally: map keys = keys present in all inputs, list entries = multiset minimum over inputs (order not judged), differing scalars or kinds = $required",
			"in-process runs use cmd/bkli/intersect.go and cmd/bkld/diff.go copied from /repo's working tree at build time"},
		Bounds: map[string]any{"pair_nodes": n, "triple_nodes": n3},
	}
}

// ---------------------------------------------------------------- C17

func c17MarkerPaths(v any, path string, out *[]string) {
	switch x := v.(type) {
	case string:
		if x == "$required" {
			*out = append(*out, path)
		}
	case map[string]any:
		for _, k := range core.SortedKeys(x) {
			c17MarkerPaths(x[k], path+"."+k, out)
		}
	case []any:
		for _, e := range x {
			c17MarkerPaths(e, path+"[]", out)
		}
	}
}

// c17OnlySkeleton: every leaf of v is a $required string (containers only lead to markers).
func c17OnlySkeleton(v any) bool {
	switch x := v.(type) {
	case string:
		return x == "$required"
	case map[string]any:
		if len(x) == 0 {
			return false
		}
		for _, c := range x {
			if !c17OnlySkeleton(c) {
				return false
			}
		}
		return true
	case []any:
		if len(x) == 0 {
			return false
		}
		for _, c := range x {
			if !c17OnlySkeleton(c) {
				return false
			}
		}
		return true
	}
	return false
}

func c17Check(c *core.Ctx, layers []any) {
	c.Eval()
	c.Trans(len(layers) + 2)
	wit := core.Canon(layers)
	p := newParser()
	var prev []*bkl.Document
	// the "layered input" is what the documented merge rules give (reference model), not
	// whatever the implementation's merge produced: a wrong merge must not vouch for bklr
	ms := &ref.Stream{}
	var mprev []*ref.Doc
	modelOK := true
	for i, l := range layers {
		d := newDoc(fmt.Sprintf("l%d", i), l)
		d.AddParents(prev...)
		rd := &ref.Doc{ID: fmt.Sprintf("l%d", i), Data: core.Clone(l), Parents: append([]*ref.Doc{}, mprev...)}
		mprev = append(mprev, rd)
		if modelOK {
			if res, _ := ms.MergeDocument(rd); res.V != ref.Accept {
				modelOK = false
			}
		}
		if err := p.MergeDocument(d); err != nil {
			c.Outcome("layers-rejected")
			return
		}
		prev = append(prev, d)
	}
	docs := docData(p)
	if len(docs) != 1 {
		return
	}
	merged := docs[0]
	if modelOK && len(ms.Docs) == 1 {
		if !core.Equal(ms.Docs[0].Data, merged) {
			c.Outcome("MERGED-DIFFERS-FROM-MODEL")
			c.Fail("marker-positions", "layered-input-differs-from-documented-merge", wit, map[string]any{"implementation": merged, "model": ms.Docs[0].Data})
			return
		}
	}
	var out any
	var rerr error
	func() {
		defer func() {
			if r := recover(); r != nil {
				rerr = fmt.Errorf("bklr fatal: %v", r)
			}
		}()
		out, rerr = bklr.Required(core.Clone(merged))
	}()
	c.Validated()
	if rerr != nil {
		c.Fail("bklr", "fails", wit, errStr(rerr))
		return
	}
	var want, got []string
	c17MarkerPaths(merged, "$", &want)
	c17MarkerPaths(out, "$", &got)
	sort.Strings(want)
	sort.Strings(got)
	c.State(core.Canon(out))
	if fmt.Sprint(want) != fmt.Sprint(got) {
		c.Outcome("WRONG-MARKERS")
		c.Fail("marker-positions", "differ", wit, map[string]any{"merged": merged, "output": out, "want_paths": want, "got_paths": got})
		return
	}
	if len(want) == 0 {
		if out != nil {
			c.Outcome("NOT-EMPTY")
			c.Fail("empty-iff-none", "output-without-markers", wit, map[string]any{"output": out})
			return
		}
	} else {
		c.Nontrivial()
		if out == nil || !c17OnlySkeleton(out) {
			c.Outcome("EXTRA-CONTENT")
			c.Fail("skeleton-only", "extra-content", wit, map[string]any{"output": out})
			return
		}
		// idempotent
		again, err := bklr.Required(core.Clone(out))
		if err != nil || !core.Equal(again, out) {
			c.Outcome("NOT-IDEMPOTENT")
			c.Fail("idempotent", "changes-its-own-output", wit, map[string]any{"first": out, "second": again})
			return
		}
	}
	// bkl refuses with a required-field error exactly when the output is non-empty
	c.Trans(1)
	_, err := p.OutputDocuments()
	refused := err != nil && isRequiredErr(err)
	if (len(want) > 0) != refused {
		c.Outcome("DISAGREES-WITH-BKL")
		c.Fail("agrees-with-bkl", "status-differs", wit, map[string]any{"bklr_output": out, "bkl_error": errStr(err)})
		return
	}
	c.Outcome("ok")
}

func isRequiredErr(err error) bool {
	for e := err; e != nil; {
		if e == bkl.ErrRequiredField {
			return true
		}
		u, ok := e.(interface{ Unwrap() error })
		if !ok {
			break
		}
		e = u.Unwrap()
	}
	return false
}

func buildC17(tier string) *core.Plan {
	n, n3l := 4, 3
	if tier == "thorough" {
		n, n3l = 6, 4
	}
	a := gen.Alphabet{Scalars: []any{1, "x", "$required"}, Keys: []string{"a", "b"}, MaxList: 3, MaxMap: 2}
	trees := gen.Filter(gen.Trees(a, n), gen.IsMap)
	nt := int64(len(trees))
	single := core.Space{Name: "single-layer", N: nt,
		Desc: func(i int64) any { return []any{trees[i]} },
		Run:  func(c *core.Ctx, i int64) { c17Check(c, []any{trees[i]}) }}
	small := gen.Filter(gen.Trees(a, n-1), gen.IsMap)
	ns := int64(len(small))
	two := core.Space{Name: "two-layers", N: ns * ns,
		Desc: func(i int64) any { return []any{small[i/ns], small[i%ns]} },
		Run:  func(c *core.Ctx, i int64) { c17Check(c, []any{small[i/ns], small[i%ns]}) }}
	tiny := gen.Filter(gen.Trees(a, n3l), gen.IsMap)
	n3 := int64(len(tiny))
	three := core.Space{Name: "three-layers", N: n3 * n3 * n3,
		Desc: func(i int64) any { return []any{tiny[i/(n3*n3)], tiny[(i/n3)%n3], tiny[i%n3]} },
		Run: func(c *core.Ctx, i int64) {
			c17Check(c, []any{tiny[i/(n3*n3)], tiny[(i/n3)%n3], tiny[i%n3]})
		}}
	// lists mixing direct markers, nested markers and plain entries (beyond the node bound)
	lentries := []any{"$required", 1, map[string]any{"a": "$required"}, map[string]any{"a": 1, "b": "$required"}, []any{"$required"}, map[string]any{"a": []any{1, "$required"}}}
	var mixed []any
	for _, x := range lentries {
		for _, y := range lentries {
			mixed = append(mixed, map[string]any{"l": []any{x, y}, "k": 1})
			for _, z := range lentries[:3] {
				mixed = append(mixed, map[string]any{"l": []any{x, y, z}})
			}
		}
	}
	uppers := []any{nil, map[string]any{"k": 2}, map[string]any{"l": []any{5}}, map[string]any{"l": []any{map[string]any{"$match": map[string]any{"a": "$required"}, "a": 7}}}}
	nm, nu := int64(len(mixed)), int64(len(uppers))
	mixedSpace := core.Space{Name: "mixed-marker-lists", N: nm * nu,
		Desc: func(i int64) any { return []any{mixed[i/nu], uppers[i%nu]} },
		Run: func(c *core.Ctx, i int64) {
			if uppers[i%nu] == nil {
				c17Check(c, []any{mixed[i/nu]})
			} else {
				c17Check(c, []any{mixed[i/nu], uppers[i%nu]})
			}
		}}
	// strings that merely resemble the marker: an escaped "$$required" is data, and so is "$requiredX"
	la := gen.Alphabet{Scalars: []any{"$required", "$$required", "$$", "$$requiredX", " $required"}, Keys: []string{"a", "$$required"}, MaxList: 2, MaxMap: 2}
	laTrees := gen.Filter(gen.Trees(la, 4), gen.IsMap)
	nla := int64(len(laTrees))
	lookalike := core.Space{Name: "marker-lookalikes", N: nla,
		Desc: func(i int64) any { return []any{laTrees[i]} },
		Run:  func(c *core.Ctx, i int64) { c17Check(c, []any{laTrees[i]}) }}
	// documents whose root is a list (or a bare marker)
	rootLists := []any{[]any{"$required"}, []any{1, map[string]any{"a": "$required"}}, []any{[]any{"$required"}, 2}, []any{1, 2}, []any{}, "$required", []any{map[string]any{"a": 1}, "$required", map[string]any{"b": []any{"$required"}}}}
	lookalike2 := core.Space{Name: "list-rooted-documents", N: int64(len(rootLists)),
		Desc: func(i int64) any { return []any{rootLists[i]} },
		Run: func(c *core.Ctx, i int64) {
			c17Check(c, []any{rootLists[i]})
			// and through the bklr command itself
			dir := scratchDir()
			defer os.RemoveAll(dir)
			if writeDoc(dir, "in.yaml", "yaml", rootLists[i]) != nil {
				return
			}
			so, se, code, err := runTool(dir, "bklr", "-f", "json", "in.yaml")
			if err != nil {
				return
			}
			want, werr := bklr.Required(core.Clone(rootLists[i]))
			wit := "cli list-rooted " + core.Canon(rootLists[i])
			if werr != nil {
				return
			}
			if code != 0 {
				c.Fail("cli-bklr", "fails", wit, se)
				return
			}
			got, perr := c14ParseText("json", so)
			if want == nil {
				if perr == nil && got != nil {
					c.Fail("cli-bklr", "cli-differs-from-library", wit, map[string]any{"stdout": so, "want": want})
				}
				return
			}
			if perr != nil || !core.EqualLoose(got, want) {
				c.Fail("cli-bklr", "cli-differs-from-library", wit, map[string]any{"stdout": so, "want": want})
			}
		}}
	cliTrees := gen.Filter(gen.Trees(a, 3), gen.IsMap)
	nc := int64(len(cliTrees))
	cli := core.Space{Name: "cli", N: nc * nc,
		Desc: func(i int64) any { return []any{cliTrees[i/nc], cliTrees[i%nc]} },
		Run: func(c *core.Ctx, i int64) {
			lo, up := cliTrees[i/nc], cliTrees[i%nc]
			fm := []string{"json", "yaml", "toml"}
			f1, f2 := fm[i%3], fm[(i/3)%3]
			dir := scratchDir()
			defer os.RemoveAll(dir)
			if writeDoc(dir, "a."+f1, f1, lo) != nil || writeDoc(dir, "a.b."+f2, f2, up) != nil {
				return
			}
			c.Eval()
			c.Trans(2)
			wit := fmt.Sprintf("cli %s/%s %s", f1, f2, core.Canon([]any{lo, up}))
			// first through -o onto an existing, longer file; then on stdout
			os.MkdirAll(filepath.Join(dir, "o"), 0o755)
			os.WriteFile(filepath.Join(dir, "o", "req.json"), []byte(strings.Repeat(" ", 400)+"{\"stale\": \"$required\"}\n"), 0o644)
			_, _, ocode, _ := runTool(dir, "bklr", "-o", "o/req.json", "a.b."+f2)
			so, se, code, err := runTool(dir, "bklr", "-f", "json", "a.b."+f2)
			if ocode == 0 && code == 0 {
				if fb, rerr := os.ReadFile(filepath.Join(dir, "o", "req.json")); rerr != nil || string(fb) != so {
					c.Fail("cli-bklr", "output-file-differs-from-stdout", fmt.Sprintf("cli %s/%s %s", f1, f2, core.Canon([]any{lo, up})), map[string]any{"file": string(fb), "stdout": so})
					return
				}
			}
			p, lerr := layerAPI(lo, up)
			c.Validated()
			if lerr != nil {
				if code == 0 {
					c.Fail("cli-bklr", "accepts-rejected-layers", wit, so)
				}
				return
			}
			if err != nil || code != 0 {
				c.Fail("cli-bklr", "fails", wit, se)
				return
			}
			want, _ := bklr.Required(docData(p)[0])
			got, perr := c14ParseText("json", so)
			if perr != nil && want != nil {
				c.Fail("cli-bklr", "unparsable", wit, so)
				return
			}
			// running bklr on its own output changes nothing (also when the skeleton is empty)
			os.WriteFile(filepath.Join(dir, "o", "own.json"), []byte(so), 0o644)
			so2, se2, code2, _ := runTool(dir, "bklr", "-f", "json", "o/own.json")
			if code2 != 0 || so2 != so {
				c.Fail("cli-bklr", "not-idempotent-on-its-own-output", wit, map[string]any{"first": so, "second": so2, "stderr": se2, "exit": code2})
				return
			}
			if want == nil {
				got2, _ := c14ParseText("json", so)
				if got2 != nil {
					c.Fail("cli-bklr", "cli-differs-from-library", wit, map[string]any{"stdout": so, "want": want})
				}
				c.Outcome("cli-empty")
				return
			}
			if !core.EqualLoose(got, want) {
				c.Fail("cli-bklr", "cli-differs-from-library", wit, map[string]any{"stdout": so, "want": want})
				return
			}
			_, _, bcode, _ := runTool(dir, "bkl", "a.b."+f2)
			if bcode == 0 {
				c.Fail("cli-bklr", "bkl-accepts-although-required-missing", wit, so)
				return
			}
			c.Outcome("cli-ok")
		}}
	return &core.Plan{
		Spaces:      []core.Space{single, two, three, mixedSpace, cli, lookalike, lookalike2},
		Rule:        "every chain of 1-3 map-rooted layers over keys {a,b}, scalars {1, x, $required}, lists <=3 (single layers up to N nodes, pairs up to N-1, triples up to 3): $required at every subset of positions, upper layers overriding every subset; CLI runs with filename inheritance in format mixes; non-trivial = the merged document holds a marker",
		Assumptions: []string{"marker positions are compared as multisets of paths with list indices erased; in-process runs use cmd/bklr/required.go copied from /repo's working tree at build time"},
		Bounds:      map[string]any{"nodes": n},
	}
}
