//go:build instr

package checks

import (
	"bytes"
	"fmt"
	"os"
	"os/exec"
	"path/filepath"
	"runtime/debug"
	"strings"
	"sync"
	"time"

	"github.com/gopatchy/bkl"
	"verif/core"
	"verif/explore"
	"verif/gen"
)

// C09 — evaluation is deterministic: independent of hash-map iteration order,
// of the process, and of other evaluations running concurrently.

func init() {
	core.Register(&core.Check{ID: "C09", Title: "determinism", Build: buildC09})
}

// a c09Input is a little layer program evaluated on a fresh parser.
type c09Input struct {
	Kind   string `json:"kind"`
	Layers []any  `json:"layers,omitempty"` // each merged with all earlier ones as parents
	YAML   string `json:"yaml,omitempty"`   // or: a YAML text decoded with bkl's own decoder
	Format string `json:"format"`
}

func (in c09Input) eval() string {
	p := newParser()
	var prev []*bkl.Document
	layers := in.Layers
	if in.YAML != "" {
		f, _ := bkl.GetFormat("yaml")
		docs, err := f.UnmarshalStream([]byte(in.YAML))
		if err != nil {
			return "ERR decode"
		}
		layers = docs
	}
	for i, l := range layers {
		d := bkl.NewDocumentWithData(fmt.Sprintf("d%d", i), core.Clone(l))
		if in.YAML == "" {
			d.AddParents(prev...)
		}
		if err := p.MergeDocument(d); err != nil {
			return "ERR merge"
		}
		prev = append(prev, d)
	}
	out, err := p.Output(in.Format)
	if err != nil {
		return "ERR output"
	}
	return "OK " + string(out)
}

func c09Inputs(tier string) []c09Input {
	var ins []c09Input
	add := func(kind, format string, layers ...any) {
		ins = append(ins, c09Input{Kind: kind, Layers: layers, Format: format})
	}
	m := func(kv ...any) map[string]any {
		r := map[string]any{}
		for i := 0; i+1 < len(kv); i += 2 {
			r[kv[i].(string)] = kv[i+1]
		}
		return r
	}
	// several $output selections
	add("multi-output", "yaml", m("b", m("$output", true, "v", 2), "a", m("$output", true, "v", 1), "c", m("$output", true, "v", 3)))
	add("multi-output-nested", "json", m("a", m("$output", true, "x", m("$output", true, "v", 1), "y", m("$output", true, "v", 2))))
	add("multi-output-list", "json", m("l", []any{m("$output", true, "v", 1), m("$output", true, "v", 2)}, "k", m("$output", true, "v", 0)))
	add("multi-output-two-levels-down", "json", m("b", m("x", m("$output", true, "v", 1)), "a", m("y", m("$output", true, "v", 2)), "c", m("z", m("w", m("$output", true, "v", 3)))))
	add("multi-output-mixed-depths", "yaml", m("b", m("$output", true, "v", 1), "a", m("y", m("$output", true, "v", 2)), "c", []any{m("w", m("$output", true, "v", 3))}))
	// named repeat products
	add("repeat-named-2", "json", m("$repeat", m("x", 2, "y", 2), "v", `$"{$repeat:x}{$repeat:y}"`))
	add("repeat-named-3", "json", m("$repeat", m("b", 2, "a", 2, "c", 2), "v", `$"{$repeat:a}{$repeat:b}{$repeat:c}"`))
	add("repeat-named-bad", "json", m("$repeat", m("b", "x", "a", 2, "c", 1.5), "v", 1))
	add("repeat-map", "json", m("m", m("k", m("$repeat", 3, "n", "$repeat"))))
	add("repeat-map-keyed", "json", m("m", m(`$"k{$repeat}"`, m("$repeat", 3, "n", "$repeat"))))
	// colliding unescaped keys
	add("unescape-collision", "json", m("A$$B", 1, "A$B", 2))
	add("unescape-collision-3", "json", m("$$", 1, "$", 2, "$$$$", 3))
	add("unescape-no-collision", "json", m("A$$B", 1, "C$D", 2, "E", 3))
	// $merge whose target lies inside its own host, and friends
	add("merge-target-in-host", "json", m("$merge", "c", "c", m("c", m("x", 1), "d", 2)))
	add("merge-target-in-host-2", "json", m("$merge", "c", "c", m("c", m("x", 1), "d", 2, "e", m("y", 3)), "e", m("z", 1)))
	add("merge-self-subtree", "json", m("a", m("a", 1, "$merge", []any{})))
	add("merge-siblings", "json", m("a", m("$merge", "b", "x", 1), "b", m("y", 2, "z", m("q", 1)), "c", m("$merge", "a")))
	add("replace-chain", "json", m("a", "$replace:b", "b", m("$replace", "c"), "c", m("k", 1, "l", 2, "m", 3)))
	add("merge-conflict-errors", "json", m("a", m("$merge", "b", "x", 1, "y", 2), "b", m("x", 1, "y", 2)))
	// encode over multi-key maps
	add("encode-tolist", "json", m("f", m("$encode", "tolist:=", "b", 1, "a", 2, "c", []any{3, 4})))
	add("encode-values", "json", m("f", m("$encode", "values", "b", 1, "a", 2, "c", 3)))
	add("encode-flags", "json", m("f", m("$encode", "flags", "b", "", "a", 2, "c", "x")))
	add("encode-json-map", "yaml", m("f", m("$encode", "json", "b", 1, "a", m("z", 1, "y", 2), "c", 3)))
	add("encode-yaml-map", "json", m("f", m("$encode", "yaml", "b", 1, "a", m("z", 1, "y", 2), "c", 3)))
	add("encode-toml-map", "json", m("f", m("$encode", "toml", "b", 1, "a", m("z", 1, "y", 2), "c", 3)))
	add("encode-sha256-base64", "json", m("h", m("$encode", "sha256", "$value", "abc"), "g", m("$encode", "sha256", "$value", "abc"), "b", m("$encode", "base64", "$value", "abc"), "s", m("$encode", []any{"json", "sha256"}, "k", 1)))
	// interpolation, env, invalid directives in several keys (which error wins must not matter)
	add("interp", "json", m("s", `$"{a}-{b.c}"`, "a", "v", "b", m("c", 7), "t", `$"{s}"`))
	add("two-bad-directives", "json", m("a", "$bogus", "b", "$required", "c", m("$nope", 1)))
	add("required-and-missing-ref", "json", m("a", "$required", "b", "$merge:zz", "c", `$"{nope}"`))
	// layering with 3-key maps, $delete, $replace, list $match
	add("layer-3keys", "json", m("a", 1, "b", m("x", 1, "y", 2, "z", 3), "c", []any{m("k", 1), m("k", 2)}),
		m("a", 2, "b", m("x", "$delete", "y", 5, "w", 1), "c", []any{m("$match", m("k", 1), "v", 9)}))
	add("layer-useless-two", "json", m("a", 1, "b", 2, "c", 3), m("a", 1, "b", 2, "d", 4))
	add("layer-replace", "json", m("a", m("x", 1, "y", 2)), m("a", m("$replace", true, "p", 1, "q", 2, "r", 3)))
	add("layer-replace-with-restated-key", "json", m("a", m("x", 1, "y", 2)), m("a", m("$replace", true, "x", 1, "z", 3)))
	add("layer-replace-root-with-restated-key", "json", m("x", 1, "y", 2), m("$replace", true, "x", 1, "q", m("r", 1)))
	add("layer-replace-with-delete-of-missing", "json", m("a", m("x", 1)), m("a", m("$replace", true, "nope", "$delete", "k", 1)))
	add("layer-replace-with-kind-change", "json", m("a", m("x", m("d", 1), "l", []any{1})), m("a", m("$replace", true, "x", 5, "l", m("m", 1))))
	add("layer-two-rejections", "json", m("a", 1, "l", []any{1}, "m", m("k", 1)), m("a", 1, "l", m("x", 1), "m", 5, "zz", "$delete"))
	add("layer-fanout", "json", m("l", []any{m("k", 1, "a", 1), m("k", 1, "b", 2), m("k", 2)}), m("l", []any{m("$match", m("k", 1), "z", m("n", 1, "m", 2))}), m("l", []any{m("$match", m(), "z", m("o", 3))}))
	add("match-invert", "json", m("l", []any{m("k", 1), m("k", 2), m("j", 3)}), m("l", []any{m("$delete", m("k", 1, "$invert", true))}))
	add("output-hide", "yaml", m("a", m("$output", false, "x", 1), "b", m("y", "$merge:a.x"), "c", m("$output", false, "d", m("$output", true, "v", 1))))
	add("decode", "json", m("d", m("$decode", "json", "$value", `{"b":1,"a":{"z":1,"y":2},"c":[1,2]}`)))
	add("toml-out", "toml", m("b", 1, "a", m("z", 1, "y", 2), "c", []any{m("k", 1), m("k", 2)}))
	// keys that differ only in case, or only by an unescape: order-sensitive positions must still have one total order
	add("case-variant-outputs", "yaml", m("Web", m("$output", true, "v", 1), "web", m("$output", true, "v", 2), "WEB", m("$output", true, "v", 3)))
	add("case-variant-tolist", "json", m("f", m("$encode", "tolist:=", "V", 1, "v", 2, "K", 3, "k", 4)))
	add("case-variant-values", "json", m("f", m("$encode", "values", "Key", 1, "key", 2, "KEY", 3)))
	add("case-variant-repeat", "json", m("$repeat", m("X", 2, "x", 2), "v", `$"{$repeat:X}{$repeat:x}"`))
	add("case-variant-plain", "yaml", m("Key", 1, "key", 2, "kEy", m("A", 1, "a", 2)))
	add("case-variant-merge", "json", m("Aa", 1, "aA", 2, "aa", 3), m("AA", 4, "aa", "$delete", "Aa", 9))
	add("unicode-variant-keys", "json", m("é", 1, "e\u0301", 2, "É", 3, "f", m("$encode", "values", "é", 1, "É", 2)))
	// more than a dozen entries with repeated (list-valued) keys: an unstable sort would show
	big := m("$encode", "tolist:=")
	for i := 0; i < 9; i++ {
		big[fmt.Sprintf("k%d", i)] = i
	}
	big["rep"] = []any{"a", "b", "c", "d"}
	big["flag"] = []any{"x", "y", "z"}
	add("encode-tolist-many-repeated", "json", m("f", big))
	bigf := m("$encode", "flags")
	for k, v := range big {
		if k != "$encode" {
			bigf[k] = v
		}
	}
	add("encode-flags-many-repeated", "json", m("f", bigf))
	// evaluated keys that collide with sibling keys (last writer would win if the walk were unordered)
	add("evaluated-key-collides", "json", m("name", "svc", "svc", "literal", `$"{name}"`, "interpolated"))
	add("evaluated-key-collides-repeat", "json", m("hosts", m("host-0", "static", `$"host-{$repeat}"`, m("$repeat", 2, "v", "$repeat"))))
	add("evaluated-key-collides-merge", "json", m("k", "x", "x", 1, "$merge:k", 2, "$replace:k", 3))
	// YAML anchors and merge keys (yamlMerge ranges over maps)
	ins = append(ins, c09Input{Kind: "yaml-merge-keys", Format: "json", YAML: "x: &x {a: 1, b: 2, c: 3}\ny: &y {a: 9, d: 4}\nz:\n  <<: [*x, *y]\n  e: 5\nw:\n  <<: *y\n  a: 0\n"})
	ins = append(ins, c09Input{Kind: "yaml-stream", Format: "yaml", YAML: "a: 1\nb: {x: 1, y: 2}\n---\nc: 3\n$output: true\nd: {$output: true, e: 1}\n"})
	// streams of many documents (a per-document worker pool would show here), some of them failing
	many := ""
	for i := 0; i < 9; i++ {
		many += fmt.Sprintf("n: %d\nm: {b: %d, a: 1}\n---\n", i, i)
	}
	ins = append(ins, c09Input{Kind: "yaml-stream-9-documents", Format: "yaml", YAML: many})
	ins = append(ins, c09Input{Kind: "yaml-stream-12-documents-two-outputs-each", Format: "json", YAML: strings.Repeat("a: {$output: true, v: 1}\nb: {$output: true, v: 2}\n---\n", 12)})
	ins = append(ins, c09Input{Kind: "yaml-stream-9-documents-two-failing", Format: "json", YAML: "a: 1\n---\nb: $required\n---\nc: 1\n---\nd: 1\n---\ne: 1\n---\nf: 1\n---\ng: 1\n---\nh: $bogus\n---\ni: 1\n"})
	// plain trees with 3 keys
	plain := gen.Trees(gen.Alphabet{Scalars: []any{1, "$required"}, Keys: []string{"a", "$$", "$"}, MaxList: 1, MaxMap: 3}, 4)
	step := 1
	if tier == "quick" {
		step = 2
	}
	for i := 0; i < len(plain); i += step {
		if mm, ok := plain[i].(map[string]any); ok && len(mm) >= 2 {
			add("plain-tree", "json", plain[i])
		}
	}
	// C11's generator: every tree with at least two selected subtrees (their relative order is observable)
	sel := gen.NewSet(gen.Alphabet{Scalars: []any{1, true}, Keys: []string{"a", "b", "$output"}, MaxList: 2, MaxMap: 3}, 7)
	nsel := 0
	for i := int64(0); i < sel.Len(); i++ {
		t := sel.At(i)
		if c09CountSelected(t) < 2 {
			continue
		}
		nsel++
		if tier == "quick" && nsel%7 != 0 {
			continue
		}
		add("selected-subtrees", "json", t)
	}
	// merge pairs from the C01 alphabet (maps with >= 2 keys on both sides)
	parents := gen.Trees(gen.Alphabet{Scalars: []any{1}, Keys: []string{"a", "b", "c"}, MaxList: 1, MaxMap: 3, NoLists: true}, 4)
	children := gen.Trees(gen.Alphabet{Scalars: []any{1, 2, "$delete"}, Keys: []string{"a", "b", "$replace"}, MaxList: 1, MaxMap: 3, NoLists: true}, 4)
	n := 0
	for _, p := range parents {
		pm, ok := p.(map[string]any)
		if !ok || len(pm) < 2 {
			continue
		}
		for _, ch := range children {
			cm, ok := ch.(map[string]any)
			if !ok || len(cm) < 2 {
				continue
			}
			n++
			if tier == "quick" && n%5 != 0 {
				continue
			}
			add("merge-pair", "json", p, ch)
		}
	}
	return ins
}

// c09CountSelected counts the maps carrying "$output": true.
func c09CountSelected(v any) int {
	n := 0
	switch x := v.(type) {
	case map[string]any:
		if b, ok := x["$output"].(bool); ok && b {
			n++
		}
		for _, c := range x {
			n += c09CountSelected(c)
		}
	case []any:
		for _, c := range x {
			n += c09CountSelected(c)
		}
	}
	return n
}

func buildC09(tier string) *core.Plan {
	bound, maxExec := 2, 20000
	if tier == "thorough" {
		bound, maxExec = 3, 400000
	}
	ins := c09Inputs(tier)

	mapOrder := core.Space{Name: fmt.Sprintf("map-orders-bound%d", bound), N: int64(len(ins)),
		Desc: func(i int64) any { return ins[i] },
		Run: func(c *core.Ctx, i int64) {
			in := ins[i]
			res := explore.MapOrders(bound, maxExec, in.eval)
			c.Extra("executions", int64(res.Executions))
			c.Trans(res.Executions)
			for j := 0; j < res.Executions; j++ {
				c.Eval()
			}
			if res.Capped {
				c.Extra("capped_inputs", 1)
			}
			if res.MaxPoints > 0 {
				c.Nontrivial()
			}
			c.Validated()
			for o := range res.Outcomes {
				c.State(o)
			}
			if len(res.Outcomes) != 1 {
				c.Outcome("NONDETERMINISTIC")
				var obs []any
				for o, seq := range res.FirstByObs {
					obs = append(obs, map[string]any{"observation": clip(o), "choices": seq, "executions": res.Outcomes[o]})
				}
				c.Fail("map-order", "outcome-depends-on-map-order", in.Kind+": "+core.JSON(in.Layers)+in.YAML, map[string]any{"distinct": len(res.Outcomes), "observations": obs})
				return
			}
			// replay the default sequence twice: identical observations
			a, b := in.eval(), in.eval()
			if a != b {
				c.Fail("replay", "free-running-differs", in.Kind+": "+core.JSON(in.Layers)+in.YAML, map[string]any{"a": clip(a), "b": clip(b)})
				return
			}
			c.Outcome("deterministic")
		}}

	// the hand-picked inputs once more with the maps.Keys/Values call sites under control as well
	var picked []int
	for i, in := range ins {
		if in.Kind != "plain-tree" && in.Kind != "merge-pair" && in.Kind != "selected-subtrees" {
			picked = append(picked, i)
		}
	}
	keyBound := 1
	if tier == "thorough" {
		keyBound = 2
	}
	keyOrder := core.Space{Name: fmt.Sprintf("map-orders-incl-maps.Keys-sites-bound%d", keyBound), N: int64(len(picked)),
		Desc: func(i int64) any { return ins[picked[i]] },
		Run: func(c *core.Ctx, i int64) {
			in := ins[picked[i]]
			res := explore.MapOrdersAt(keyBound, maxExec, func(string) bool { return true }, in.eval)
			c.Extra("executions_keys_sites", int64(res.Executions))
			c.Trans(res.Executions)
			for j := 0; j < res.Executions; j++ {
				c.Eval()
			}
			c.Validated()
			if res.MaxPoints > 0 {
				c.Nontrivial()
			}
			if len(res.Outcomes) != 1 {
				c.Outcome("NONDETERMINISTIC")
				var obs []any
				for o, seq := range res.FirstByObs {
					obs = append(obs, map[string]any{"observation": clip(o), "choices": seq, "executions": res.Outcomes[o]})
				}
				c.Fail("map-order", "outcome-depends-on-map-order", in.Kind+": "+core.JSON(in.Layers)+in.YAML, map[string]any{"distinct": len(res.Outcomes), "observations": obs, "sites": "range statements and maps.Keys/Values/All calls"})
				return
			}
			c.Outcome("deterministic-incl-keys-sites")
		}}

	// schedules: pairs (and triples) of inputs as cooperative threads
	var pairs [][]int
	pk := len(ins)
	if pk > 40 {
		pk = 40
	}
	for a := 0; a < pk; a++ {
		for b := a; b < pk; b++ {
			if tier == "quick" && (a+b)%3 != 0 {
				continue
			}
			pairs = append(pairs, []int{a, b})
		}
	}
	for a := 0; a+2 < pk; a += 3 {
		pairs = append(pairs, []int{a, a + 1, a + 2})
	}
	// every hand-picked input alone: one evaluation has a single schedule unless the library
	// starts goroutines of its own, which then become threads of the explored schedule
	for _, a := range picked {
		pairs = append(pairs, []int{a})
	}
	sched := core.Space{Name: "schedules", N: int64(len(pairs)),
		Desc: func(i int64) any {
			var ks []any
			for _, k := range pairs[i] {
				ks = append(ks, ins[k])
			}
			return ks
		},
		Run: func(c *core.Ctx, i int64) {
			idx := pairs[i]
			solo := make([]string, len(idx))
			bodies := make([]func() string, len(idx))
			bkl.BklvChoose = func(string, int) int { return 0 }
			for k, ii := range idx {
				in := ins[ii]
				solo[k] = in.eval()
				bodies[k] = in.eval
			}
			bkl.BklvChoose = nil
			b := 2
			if len(idx) == 3 {
				b = 1
			}
			bad := false
			var kinds []string
			for _, ii := range idx {
				kinds = append(kinds, ins[ii].Kind)
			}
			res := explore.Schedules(b, maxExec, bodies, func(obs []string, schedule []int) {
				if bad {
					return
				}
				for k := range obs {
					if obs[k] != solo[k] {
						bad = true
						if len(idx) == 1 {
							c.Outcome("SCHEDULE-DEPENDENT")
							c.Fail("schedules", "result-depends-on-schedule-of-internal-goroutines", kinds[0],
								map[string]any{"free_running": clip(solo[k]), "scheduled": clip(obs[k]), "schedule": schedule})
							return
						}
						c.Outcome("CROSS-TALK")
						c.Fail("schedules", "result-depends-on-concurrent-evaluation", strings.Join(kinds, " || "),
							map[string]any{"thread": k, "alone": clip(solo[k]), "concurrent": clip(obs[k]), "schedule": schedule})
					}
				}
			})
			c.Extra("threads_spawned_by_library", int64(res.SpawnedThreads))
			if res.Stuck {
				// outside what the cooperative scheduler models: said, not judged
				c.Extra("schedules_abandoned_unmodelled_blocking", 1)
				c.Outcome("schedule-exploration-not-applicable")
				c.Expensive()
				return
			}
			if res.Deadlocks > 0 && !bad {
				bad = true
				c.Outcome("DEADLOCK")
				c.Fail("schedules", "deadlock", strings.Join(kinds, " || "), map[string]any{"executions_deadlocked": res.Deadlocks})
			}
			c.Extra("schedules", int64(res.Executions))
			c.Extra("max_scheduling_points", int64(res.MaxPoints))
			c.Trans(res.Executions * len(idx))
			for j := 0; j < res.Executions; j++ {
				c.Eval()
			}
			c.Validated()
			if !bad {
				c.Outcome("schedules-agree")
			}
		}}

	// free-running goroutines (this is what the separate -race build exercises)
	free := core.Space{Name: "free-running-goroutines", N: 1,
		Desc: func(i int64) any { return "all inputs from 16 goroutines at once, 3 rounds" },
		Run: func(c *core.Ctx, i int64) {
			c09FreeRun(c, ins, 3)
		}}

	// fresh processes: the bkl CLI twice per file-backed input
	cli := core.Space{Name: "fresh-cli-processes", N: int64(len(ins)),
		Desc: func(i int64) any { return ins[i] },
		Run: func(c *core.Ctx, i int64) {
			in := ins[i]
			if in.YAML != "" || (tier == "quick" && i%5 != 0) {
				return
			}
			dir := scratchDir()
			defer os.RemoveAll(dir)
			js, _ := bkl.GetFormat("json")
			name := "a"
			for _, l := range in.Layers {
				b, err := js.MarshalStream([]any{l})
				if err != nil {
					return
				}
				os.WriteFile(filepath.Join(dir, name+".json"), b, 0o644)
				name += ".l"
			}
			name = strings.TrimSuffix(name, ".l")
			var outs []string
			for r := 0; r < 2; r++ {
				cmd := exec.Command(filepath.Join(core.WorkDir(), "bin", "bkl"), "-f", cliFormat(in.Format), filepath.Join(dir, name+".json"))
				cmd.Env = []string{"PATH=/usr/bin:/bin"}
				out, err := cmd.Output()
				st := "ok"
				if err != nil {
					st = "fail"
				}
				outs = append(outs, st+"|"+string(out))
				c.Eval()
				c.Trans(1)
			}
			c.Validated()
			lib := in.eval()
			if outs[0] != outs[1] {
				c.Fail("fresh-processes", "cli-runs-differ", in.Kind+": "+core.JSON(in.Layers), map[string]any{"run1": clip(outs[0]), "run2": clip(outs[1])})
				return
			}
			// and the process agrees with the in-process library status
			if strings.HasPrefix(lib, "OK ") != strings.HasPrefix(outs[0], "ok|") {
				c.Fail("fresh-processes", "cli-status-differs-from-library", in.Kind+": "+core.JSON(in.Layers), map[string]any{"cli": clip(outs[0]), "library": clip(lib)})
				return
			}
			c.Outcome("cli-runs-agree")
		}}

	return &core.Plan{
		Spaces: []core.Space{mapOrder, keyOrder, sched, free, cli, c09RewrittenFiles(), c09Repeated(ins, picked)},
		Rule: "for each input, every execution with <= bound non-default picks at the instrumented map-range sites (all sites found by vinstr in the working tree, insert-during-range latitude included); " +
			"every interleaving with <= 2 pre-emptions (3 threads: <= 1) at accesses to mutable package-level variables; non-trivial = the input reaches at least one map-order choice point",
		Assumptions: []string{"map iteration inside dependencies (yaml.v3, go-toml, encoding/json) is not controlled; encoding/json and go-toml sort keys, yaml.v3 sorts keys on output",
			"the cooperative scheduler is sequentially consistent; scheduling points are accesses to package-level variables of package bkl that the package may mutate (computed by vinstr from the working tree); the free-running -race pass guards that assumption",
			"error messages are not compared, only success/failure and bytes"},
		Bounds: map[string]any{"map_order_deviation_bound": bound, "max_executions_per_input": maxExec, "preemption_bound": 2, "inputs": len(ins), "schedule_groups": len(pairs)},
		Post:   c09Post,
	}
}

func cliFormat(f string) string {
	if f == "yaml" || f == "toml" || f == "json" {
		return f
	}
	return "json"
}

// c09FreeRun evaluates every input from 16 goroutines at once and compares with
// the sequential result. Under the plain build it is a stress pass; the same
// function runs in the -race build (vmc racepass).
func c09FreeRun(c *core.Ctx, ins []c09Input, rounds int) {
	// The concurrent rounds come FIRST: in the fresh process of the race pass nothing has been
	// evaluated yet, so lazily filled package-level state (caches, memo tables) is written while other
	// goroutines read it - a sequential warm-up would hide exactly that. The reference results are
	// computed afterwards, one at a time.
	type obs struct {
		i   int
		got string
	}
	var mu sync.Mutex
	var all []obs
	for r := 0; r < rounds; r++ {
		var wg sync.WaitGroup
		for g := 0; g < 16; g++ {
			wg.Add(1)
			go func(g int) {
				defer wg.Done()
				local := make([]obs, 0, len(ins))
				for k := range ins {
					i := (k*7 + g*13) % len(ins)
					local = append(local, obs{i, ins[i].eval()})
				}
				mu.Lock()
				all = append(all, local...)
				mu.Unlock()
			}(g)
		}
		wg.Wait()
	}
	want := make([]string, len(ins))
	for i, in := range ins {
		want[i] = in.eval()
	}
	bad := 0
	for _, o := range all {
		if o.got != want[o.i] {
			bad++
			if c != nil && bad <= 3 {
				c.Fail("free-running", "concurrent-result-differs", ins[o.i].Kind, map[string]any{"alone": clip(want[o.i]), "concurrent": clip(o.got)})
			}
		}
	}
	if c != nil {
		c.Extra("free_running_evaluations", int64(rounds*16*len(ins)))
		c.Trans(rounds * 16 * len(ins))
		c.Eval()
		c.Validated()
		if bad == 0 {
			c.Outcome("free-running-agree")
		}
	}
	if c == nil && bad > 0 {
		fmt.Printf("RACEPASS-MISMATCH %d\n", bad)
		os.Exit(67)
	}
}

// RacePass is the body of `vmc racepass`: run in a binary built with -race.
func RacePass(tier string) {
	c09FreeRun(nil, c09Inputs(tier), 2)
	fmt.Println("racepass done")
}

// c09Post (parent): build the harness with -race and run the free-running
// bodies; a data race report is a violation.
func c09Post(a *core.Agg) {
	if os.Getenv("VMC_SKIP_RACE") != "" {
		a.Notes = append(a.Notes, "race pass skipped by VMC_SKIP_RACE")
		return
	}
	bin := filepath.Join(core.WorkDir(), "bin", "vmc-race")
	if _, err := os.Stat(bin); err != nil {
		a.Notes = append(a.Notes, "race binary missing: "+err.Error())
		a.Exhaustive = false
		return
	}
	cmd := exec.Command(bin, "racepass", a.Tier)
	cmd.Env = append(os.Environ(), "GORACE=halt_on_error=1 exitcode=66")
	// generous deadline (the pass takes well under a minute): a pass that does not come back is
	// not judged here - termination is C08's property - but the evidence says that it did not run to the end
	var buf bytes.Buffer
	cmd.Stdout, cmd.Stderr = &buf, &buf
	if err := cmd.Start(); err != nil {
		a.Notes = append(a.Notes, "race pass could not start: "+err.Error())
		a.Exhaustive = false
		return
	}
	done := make(chan error, 1)
	go func() { done <- cmd.Wait() }()
	var err error
	select {
	case err = <-done:
	case <-time.After(20 * time.Minute):
		cmd.Process.Kill()
		<-done
		a.Notes = append(a.Notes, "free-running -race pass did not finish within 20 minutes and was stopped (not judged)")
		a.ExtraCov["race_pass"] = "stopped after 20 minutes"
		a.Exhaustive = false
		return
	}
	out := buf.Bytes()
	a.ExtraCov["race_pass"] = "ran: " + lastLine(string(out))
	if err != nil {
		s := string(out)
		site := "unknown"
		for _, l := range strings.Split(s, "\n") {
			l = strings.TrimSpace(l)
			if strings.HasPrefix(l, core.RepoDir()+"/") {
				site = strings.Fields(l)[0]
				break
			}
		}
		a.AddViolation(&core.Violation{Property: a.Check, Tier: a.Tier, Space: "race-pass", Oracle: "race-detector", Class: "data-race-or-mismatch",
			Witness: site, Detail: map[string]any{"output": headTailS(s, 3000)}, Count: 1})
	}
}

func lastLine(s string) string {
	ls := strings.Split(strings.TrimSpace(s), "\n")
	return ls[len(ls)-1]
}

func headTailS(s string, n int) string {
	if len(s) <= 2*n {
		return s
	}
	return s[:n] + "\n...\n" + s[len(s)-n:]
}

// c09RewrittenFiles: the same paths evaluated again in the same process after the files changed.
// "A function of its inputs" includes the files' current contents: what an earlier evaluation in
// this process read from the same path must not show through.
func c09RewrittenFiles() core.Space {
	type step struct {
		parent, child string // "" = file removed
		want          string
	}
	scenarios := [][]step{
		{{"v: 1\nw: x\n", "c: 1\n", `OK {"c":1,"v":1,"w":"x"}`}, {"v: 2\nw: x\n", "c: 1\n", `OK {"c":1,"v":2,"w":"x"}`}, {"v: 2\nw: x\n", "c: 9\n", `OK {"c":9,"v":2,"w":"x"}`}},
		{{"v: 1\n", "c: 1\n", `OK {"c":1,"v":1}`}, {"", "c: 1\n", "ERR"}, {"v: 3\n", "c: 1\n", `OK {"c":1,"v":3}`}},
		{{"v: [\n", "c: 1\n", "ERR"}, {"v: 1\n", "c: 1\n", `OK {"c":1,"v":1}`}, {"v: 1\n", "c: $required\n", "ERR"}, {"v: 1\n", "c: 2\n", `OK {"c":2,"v":1}`}},
	}
	return core.Space{Name: "same-paths-after-the-files-were-rewritten", N: int64(len(scenarios)), Chunk: 1,
		Desc: func(i int64) any { return scenarios[i] },
		Run: func(c *core.Ctx, i int64) {
			dir := scratchDir()
			defer os.RemoveAll(dir)
			pa, ch := filepath.Join(dir, "a.yaml"), filepath.Join(dir, "a.b.yaml")
			for k, st := range scenarios[i] {
				os.Remove(pa)
				if st.parent != "" {
					os.WriteFile(pa, []byte(st.parent), 0o644)
				}
				os.WriteFile(ch, []byte(st.child), 0o644)
				c.Eval()
				c.Trans(2)
				obs := "ERR"
				p := newParser()
				if err := p.MergeFileLayers(ch); err == nil {
					if b, err := p.Output("json"); err == nil {
						obs = "OK " + strings.TrimSpace(string(b))
					}
				}
				c.Validated()
				c.Nontrivial()
				if obs != st.want {
					c.Outcome("STALE-FILE-CONTENT")
					c.Fail("rewritten-files", "evaluation-does-not-follow-current-file-contents", fmt.Sprintf("scenario %d step %d", i, k), map[string]any{"steps": scenarios[i][:k+1], "got": obs, "want": st.want})
					return
				}
			}
			// the final state of the files, evaluated 2500 more times with the collector off (what is
			// opened and never closed then stays open: workers allow 2048 descriptors)
			last := scenarios[i][len(scenarios[i])-1]
			oldGC := debug.SetGCPercent(-1)
			defer debug.SetGCPercent(oldGC)
			for r := 0; r < 2500; r++ {
				obs := "ERR"
				p := newParser()
				if err := p.MergeFileLayers(ch); err == nil {
					if b, err := p.Output("json"); err == nil {
						obs = "OK " + strings.TrimSpace(string(b))
					}
				}
				if obs != last.want {
					c.Outcome("DEPENDS-ON-PROCESS-HISTORY")
					c.Fail("rewritten-files", "result-changes-with-repetition-in-one-process", fmt.Sprintf("scenario %d, evaluation %d of the same files", i, r+2), map[string]any{"got": obs, "want": last.want})
					return
				}
			}
			c.Trans(2500)
			c.Outcome("follows-file-contents")
		}}
}

// c09Repeated: every hand-picked input evaluated 1500 times in a row in one process; every run
// gives the observation of the first (budgets, counters or caches that outlive one evaluation
// would show as a change somewhere along the way).
func c09Repeated(ins []c09Input, picked []int) core.Space {
	const rounds = 1500
	return core.Space{Name: "each-input-1500-times-in-one-process", N: int64(len(picked)), Chunk: 2,
		Desc: func(i int64) any { return ins[picked[i]] },
		Run: func(c *core.Ctx, i int64) {
			in := ins[picked[i]]
			first := in.eval()
			for r := 1; r < rounds; r++ {
				c.Eval()
				if o := in.eval(); o != first {
					c.Validated()
					c.Outcome("DEPENDS-ON-PROCESS-HISTORY")
					c.Fail("repeated", "result-changes-with-repetition-in-one-process", in.Kind, map[string]any{"run": r + 1, "first": clip(first), "this": clip(o)})
					return
				}
			}
			c.Trans(rounds)
			c.Validated()
			c.Nontrivial()
			c.Outcome("stable-over-1500-runs")
		}}
}
