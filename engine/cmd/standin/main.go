// standin is the recording stand-in for the wrapped program (C20): it dumps
// its argv, and the content of every argument that names a readable file, to
// the file named by $REC_OUT.
package main

import (
	"encoding/json"
	"os"
)

func main() {
	rec := map[string]any{"argv0": os.Args[0], "args": os.Args[1:]}
	files := map[string]string{}
	for _, a := range os.Args[1:] {
		if st, err := os.Stat(a); err == nil && st.Mode().IsRegular() {
			if b, err := os.ReadFile(a); err == nil {
				files[a] = string(b)
			}
		}
	}
	rec["files"] = files
	if a := os.Getenv("REC_PASSTHROUGH_ENV"); a != "" {
		rec["env"] = os.Getenv(a)
	}
	b, _ := json.Marshal(rec)
	out := os.Getenv("REC_OUT")
	if out == "" {
		os.Exit(3)
	}
	if err := os.WriteFile(out, b, 0o644); err != nil {
		os.Exit(4)
	}
}
