// vmc is the multiplexed model-checking harness binary.
//
//	vmc run <check> <tier>      drive a check (parent: shards to worker subprocesses)
//	vmc worker <check> <tier>   worker subprocess (internal)
//	vmc replay <file>           re-run exactly one recorded case
//	vmc list
package main

import (
	"fmt"
	"os"

	_ "verif/checks"
	"verif/core"
)

func main() {
	if len(os.Args) < 2 {
		fmt.Fprintln(os.Stderr, "usage: vmc run|worker|replay|list ...")
		os.Exit(2)
	}
	switch os.Args[1] {
	case "run":
		if len(os.Args) != 4 {
			fmt.Fprintln(os.Stderr, "usage: vmc run <check> <tier>")
			os.Exit(2)
		}
		os.Exit(core.RunCheck(os.Args[2], os.Args[3]))
	case "worker":
		core.WorkerMain(os.Args[2], os.Args[3])
	case "replay":
		os.Exit(core.ReplayCase(os.Args[2]))
	case "list":
		for _, id := range core.AllChecks() {
			fmt.Println(id)
		}
	default:
		if f, ok := core.ExtraCommands[os.Args[1]]; ok {
			os.Exit(f(os.Args[2:]))
		}
		fmt.Fprintln(os.Stderr, "unknown command", os.Args[1])
		os.Exit(2)
	}
}
