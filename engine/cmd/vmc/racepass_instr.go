//go:build instr

package main

import (
	"verif/checks"
	"verif/core"
)

func init() {
	core.ExtraCommands["racepass"] = func(args []string) int {
		tier := "quick"
		if len(args) > 0 {
			tier = args[0]
		}
		checks.RacePass(tier)
		return 0
	}
}
