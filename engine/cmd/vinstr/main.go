// vinstr generates an instrumented copy of package bkl from /repo's working
// tree (standard library only) and an overlay file for `go build -overlay`:
//
//   - every `range X` over a map becomes `range bklvRange(X)`: with no
//     explorer attached a plain range, with one attached the explorer picks the
//     next key (all hash-map iteration orders, including insert-during-range);
//   - bklvTick() is the first statement of every function and loop body
//     (deterministic step budget);
//   - bklvShared("v") precedes every statement that touches a package-level
//     variable which the package may mutate (scheduling points of the
//     cooperative scheduler).
//
// usage: vinstr <repo dir> <out dir> [overlay.json to merge]
package main

import (
	"bytes"
	"encoding/json"
	"fmt"
	"go/ast"
	"go/format"
	"go/importer"
	"go/parser"
	"go/token"
	"go/types"
	"os"
	"path/filepath"
	"sort"
	"strings"
)

func main() {
	if len(os.Args) != 3 && len(os.Args) != 4 {
		fmt.Fprintln(os.Stderr, "usage: vinstr <repo dir> <out dir> [overlay.json to merge]")
		os.Exit(2)
	}
	repo, out := os.Args[1], os.Args[2]
	extra := map[string]string{}
	if len(os.Args) == 4 {
		b, err := os.ReadFile(os.Args[3])
		if err != nil {
			die(err)
		}
		var ov struct{ Replace map[string]string }
		if err := json.Unmarshal(b, &ov); err != nil {
			die(err)
		}
		extra = ov.Replace
	}
	os.MkdirAll(out, 0o755)
	if err := os.Chdir(repo); err != nil {
		die(err)
	}
	fset := token.NewFileSet()
	ents, err := os.ReadDir(".")
	if err != nil {
		die(err)
	}
	var files []*ast.File
	var names []string
	for _, e := range ents {
		n := e.Name()
		if e.IsDir() || !strings.HasSuffix(n, ".go") || strings.HasSuffix(n, "_test.go") {
			continue
		}
		f, err := parser.ParseFile(fset, n, nil, parser.ParseComments)
		if err != nil {
			die(err)
		}
		if f.Name.Name != "bkl" {
			continue
		}
		files = append(files, f)
		names = append(names, n)
	}
	info := &types.Info{Types: map[ast.Expr]types.TypeAndValue{}, Uses: map[*ast.Ident]types.Object{}, Defs: map[*ast.Ident]types.Object{}}
	conf := types.Config{Importer: importer.ForCompiler(fset, "source", nil), Error: func(err error) {}}
	pkg, err := conf.Check("github.com/gopatchy/bkl", fset, files, info)
	if err != nil && pkg == nil {
		die(err)
	}

	// package-level variables
	globals := map[types.Object]bool{}
	for _, n := range pkg.Scope().Names() {
		if v, ok := pkg.Scope().Lookup(n).(*types.Var); ok {
			globals[v] = true
		}
	}
	rootGlobal := func(e ast.Expr) types.Object {
		for {
			switch x := e.(type) {
			case *ast.Ident:
				if o := info.Uses[x]; o != nil && globals[o] {
					return o
				}
				return nil
			case *ast.IndexExpr:
				e = x.X
			case *ast.SelectorExpr:
				e = x.X
			case *ast.StarExpr:
				e = x.X
			case *ast.ParenExpr:
				e = x.X
			case *ast.SliceExpr:
				e = x.X
			default:
				return nil
			}
		}
	}
	mutated := map[types.Object]bool{}
	isRefType := func(t types.Type) bool {
		switch t.Underlying().(type) {
		case *types.Map, *types.Slice, *types.Pointer, *types.Chan:
			return true
		}
		return false
	}
	for _, f := range files {
		ast.Inspect(f, func(n ast.Node) bool {
			switch x := n.(type) {
			case *ast.AssignStmt:
				for _, l := range x.Lhs {
					if o := rootGlobal(l); o != nil {
						mutated[o] = true
					}
				}
			case *ast.IncDecStmt:
				if o := rootGlobal(x.X); o != nil {
					mutated[o] = true
				}
			case *ast.UnaryExpr:
				if x.Op == token.AND {
					if o := rootGlobal(x.X); o != nil {
						mutated[o] = true
					}
				}
			case *ast.RangeStmt:
				if x.Tok == token.ASSIGN {
					for _, l := range []ast.Expr{x.Key, x.Value} {
						if l != nil {
							if o := rootGlobal(l); o != nil {
								mutated[o] = true
							}
						}
					}
				}
			case *ast.CallExpr:
				// a reference-typed global handed to a function may be mutated there
				for _, a := range x.Args {
					if id, ok := a.(*ast.Ident); ok {
						if o := info.Uses[id]; o != nil && globals[o] && isRefType(o.Type()) {
							// regexps and error values are immutable by contract
							ts := o.Type().String()
							if ts == "*regexp.Regexp" || ts == "error" {
								continue
							}
							mutated[o] = true
						}
					}
				}
				// method with pointer receiver on a global of a bkl type
				if sel, ok := x.Fun.(*ast.SelectorExpr); ok {
					if o := rootGlobal(sel.X); o != nil {
						ts := o.Type().String()
						if strings.Contains(ts, "sync.") || strings.Contains(ts, "bytes.Buffer") || strings.Contains(ts, "strings.Builder") || strings.Contains(ts, "github.com/gopatchy/bkl.") {
							mutated[o] = true
						}
					}
				}
			}
			return true
		})
	}

	mentions := func(n ast.Node) string {
		found := ""
		ast.Inspect(n, func(m ast.Node) bool {
			if found != "" {
				return false
			}
			switch x := m.(type) {
			case *ast.BlockStmt, *ast.FuncLit:
				_ = x
				return false // nested bodies are handled on their own
			case *ast.Ident:
				if o := info.Uses[x]; o != nil && mutated[o] {
					found = o.Name()
				}
			}
			return true
		})
		return found
	}

	report := map[string]any{}
	var rangeSites, sharedSites []string
	ticks := 0

	call := func(name string, args ...ast.Expr) ast.Stmt {
		return &ast.ExprStmt{X: &ast.CallExpr{Fun: ast.NewIdent(name), Args: args}}
	}
	var instrBlock func(b *ast.BlockStmt, tick bool)
	var instrStmt func(s ast.Stmt)
	headerMention := func(s ast.Stmt) string {
		switch x := s.(type) {
		case *ast.IfStmt:
			if x.Init != nil {
				if m := mentions(x.Init); m != "" {
					return m
				}
			}
			return mentions(x.Cond)
		case *ast.ForStmt:
			for _, n := range []ast.Node{x.Init, x.Cond, x.Post} {
				if n != nil && !isNilNode(n) {
					if m := mentions(n); m != "" {
						return m
					}
				}
			}
			return ""
		case *ast.RangeStmt:
			return mentions(x.X)
		case *ast.SwitchStmt:
			if x.Init != nil {
				if m := mentions(x.Init); m != "" {
					return m
				}
			}
			if x.Tag != nil {
				return mentions(x.Tag)
			}
			return ""
		case *ast.TypeSwitchStmt:
			return mentions(x.Assign)
		case *ast.BlockStmt, *ast.SelectStmt, *ast.LabeledStmt:
			return ""
		default:
			return mentions(s)
		}
	}
	// go statements: `go f(a, b)` becomes `{ t0, t1 := a, b; bklvGo(func() { f(t0, t1) }) }` - the
	// function value and the arguments are still evaluated by the spawning goroutine, as the
	// language requires; under a scheduler the new goroutine is a thread it controls.
	var goSites []string
	tmpN := 0
	rewriteGo := func(g *ast.GoStmt) ast.Stmt {
		goSites = append(goSites, fset.Position(g.Pos()).String())
		callx := g.Call
		var pre []ast.Stmt
		capture := func(e ast.Expr) ast.Expr {
			if tv, ok := info.Types[e]; ok && (tv.Value != nil || tv.IsNil()) {
				return e
			}
			tmpN++
			id := ast.NewIdent(fmt.Sprintf("bklvT%d", tmpN))
			pre = append(pre, &ast.AssignStmt{Lhs: []ast.Expr{id}, Tok: token.DEFINE, Rhs: []ast.Expr{e}})
			return ast.NewIdent(id.Name)
		}
		switch f := callx.Fun.(type) {
		case *ast.FuncLit:
		case *ast.Ident:
			if _, isFunc := info.Uses[f].(*types.Func); !isFunc {
				if _, isBuiltin := info.Uses[f].(*types.Builtin); !isBuiltin {
					callx.Fun = capture(f)
				}
			}
		case *ast.SelectorExpr:
			if id, ok := f.X.(*ast.Ident); ok {
				if _, isPkg := info.Uses[id].(*types.PkgName); isPkg {
					break
				}
			}
			callx.Fun = capture(f)
		default:
			callx.Fun = capture(f)
		}
		for i, a := range callx.Args {
			callx.Args[i] = capture(a)
		}
		body := &ast.BlockStmt{List: []ast.Stmt{&ast.ExprStmt{X: callx}}}
		spawn := call("bklvGo", &ast.FuncLit{Type: &ast.FuncType{Params: &ast.FieldList{}}, Body: body})
		return &ast.BlockStmt{List: append(pre, spawn)}
	}
	instrBlock = func(b *ast.BlockStmt, tick bool) {
		if b == nil {
			return
		}
		var out []ast.Stmt
		if tick {
			out = append(out, call("bklvTick"))
			ticks++
		}
		for _, s := range b.List {
			if g, ok := s.(*ast.GoStmt); ok {
				s = rewriteGo(g)
			}
			if m := headerMention(s); m != "" {
				out = append(out, call("bklvShared", &ast.BasicLit{Kind: token.STRING, Value: fmt.Sprintf("%q", m)}))
				sharedSites = append(sharedSites, fmt.Sprintf("%s (%s)", fset.Position(s.Pos()), m))
			}
			instrStmt(s)
			out = append(out, s)
		}
		b.List = out
	}
	// maps.Keys / maps.Values / maps.All (standard library and x/exp) hand out the
	// runtime's iteration order too: route them through the chooser as well.
	mapsFn := func(call *ast.CallExpr) string {
		sel, ok := call.Fun.(*ast.SelectorExpr)
		if !ok || len(call.Args) != 1 {
			return ""
		}
		id, ok := sel.X.(*ast.Ident)
		if !ok {
			return ""
		}
		pn, ok := info.Uses[id].(*types.PkgName)
		if !ok {
			return ""
		}
		tv, ok := info.Types[call.Args[0]]
		if !ok {
			return ""
		}
		if !isMapType(tv.Type) {
			return ""
		}
		switch pn.Imported().Path() + "." + sel.Sel.Name {
		case "maps.Keys":
			return "bklvKeys"
		case "maps.Values":
			return "bklvValues"
		case "maps.All":
			return "bklvAll"
		case "golang.org/x/exp/maps.Keys":
			return "bklvKeysSlice"
		case "golang.org/x/exp/maps.Values":
			return "bklvValuesSlice"
		}
		return ""
	}
	var keySites []string
	instrExpr := func(n ast.Node) {
		ast.Inspect(n, func(m ast.Node) bool {
			if fl, ok := m.(*ast.FuncLit); ok {
				instrBlock(fl.Body, true)
				return false
			}
			if call, ok := m.(*ast.CallExpr); ok {
				if fn := mapsFn(call); fn != "" {
					keySites = append(keySites, fset.Position(call.Pos()).String())
					call.Fun = ast.NewIdent(fn)
				}
			}
			return true
		})
	}
	instrStmt = func(s ast.Stmt) {
		switch x := s.(type) {
		case *ast.BlockStmt:
			instrBlock(x, false)
		case *ast.IfStmt:
			if x.Init != nil {
				instrExpr(x.Init)
			}
			instrExpr(x.Cond)
			instrBlock(x.Body, false)
			if x.Else != nil {
				instrStmt(x.Else)
			}
		case *ast.ForStmt:
			instrBlock(x.Body, true)
		case *ast.RangeStmt:
			if tv, ok := info.Types[x.X]; ok {
				if isMapType(tv.Type) {
					rangeSites = append(rangeSites, fset.Position(x.Pos()).String())
					x.X = &ast.CallExpr{Fun: ast.NewIdent("bklvRange"), Args: []ast.Expr{x.X}}
				}
			}
			instrExpr(x.X)
			instrBlock(x.Body, true)
		case *ast.SwitchStmt:
			for _, cc := range x.Body.List {
				c := cc.(*ast.CaseClause)
				b := &ast.BlockStmt{List: c.Body}
				instrBlock(b, false)
				c.Body = b.List
			}
		case *ast.TypeSwitchStmt:
			for _, cc := range x.Body.List {
				c := cc.(*ast.CaseClause)
				b := &ast.BlockStmt{List: c.Body}
				instrBlock(b, false)
				c.Body = b.List
			}
		case *ast.SelectStmt:
			for _, cc := range x.Body.List {
				c := cc.(*ast.CommClause)
				b := &ast.BlockStmt{List: c.Body}
				instrBlock(b, false)
				c.Body = b.List
			}
		case *ast.LabeledStmt:
			instrStmt(x.Stmt)
		default:
			instrExpr(s)
		}
	}

	overlay := map[string]string{}
	var syncFiles, unmodelled []string
	for i, f := range files {
		for _, d := range f.Decls {
			if fd, ok := d.(*ast.FuncDecl); ok && fd.Body != nil {
				instrBlock(fd.Body, true)
			} else if gd, ok := d.(*ast.GenDecl); ok {
				instrExpr(gd)
			}
		}
		// an import whose every use was rewritten away (maps.Keys -> bklvKeys) becomes a blank import
		stillUsed := map[string]bool{}
		ast.Inspect(f, func(n ast.Node) bool {
			if sel, ok := n.(*ast.SelectorExpr); ok {
				if id, ok := sel.X.(*ast.Ident); ok {
					if pn, ok := info.Uses[id].(*types.PkgName); ok {
						stillUsed[pn.Imported().Path()] = true
					}
				}
			}
			return true
		})
		for _, im := range f.Imports {
			path := strings.Trim(im.Path.Value, "`\"")
			if (path == "maps" || path == "golang.org/x/exp/maps") && !stillUsed[path] && (im.Name == nil || (im.Name.Name != "_" && im.Name.Name != ".")) {
				im.Name = ast.NewIdent("_")
			}
		}
		for _, im := range f.Imports {
			if im.Path.Value == `"sync"` {
				im.Path.Value = `"github.com/gopatchy/bkl/bklvsync"`
				if im.Name == nil {
					im.Name = ast.NewIdent("sync")
				}
				syncFiles = append(syncFiles, names[i])
			}
		}
		ast.Inspect(f, func(n ast.Node) bool {
			switch x := n.(type) {
			case *ast.SendStmt, *ast.SelectStmt:
				unmodelled = append(unmodelled, fset.Position(n.Pos()).String()+" (channel operation)")
			case *ast.UnaryExpr:
				if x.Op == token.ARROW {
					unmodelled = append(unmodelled, fset.Position(n.Pos()).String()+" (channel receive)")
				}
			case *ast.RangeStmt:
				if tv, ok := info.Types[x.X]; ok {
					if _, isChan := tv.Type.Underlying().(*types.Chan); isChan {
						unmodelled = append(unmodelled, fset.Position(n.Pos()).String()+" (range over channel)")
					}
				}
			case *ast.SelectorExpr:
				if id, ok := x.X.(*ast.Ident); ok {
					if pn, ok := info.Uses[id].(*types.PkgName); ok {
						switch pn.Imported().Path() {
						case "sync":
							switch x.Sel.Name {
							case "Mutex", "RWMutex", "WaitGroup", "Once", "Locker":
							default:
								unmodelled = append(unmodelled, fset.Position(n.Pos()).String()+" (sync."+x.Sel.Name+")")
							}
						case "sync/atomic":
							unmodelled = append(unmodelled, fset.Position(n.Pos()).String()+" (atomic."+x.Sel.Name+")")
						}
					}
				}
			}
			return true
		})
		var buf bytes.Buffer
		if err := format.Node(&buf, fset, f); err != nil {
			die(fmt.Errorf("%s: %w", names[i], err))
		}
		dst := filepath.Join(out, names[i])
		writeIfChanged(dst, buf.Bytes())
		overlay[filepath.Join(repo, names[i])] = dst
	}
	// hooks file
	var gl []string
	for o := range globals {
		gl = append(gl, o.Name())
	}
	sort.Strings(gl)
	var ml []string
	for o := range mutated {
		ml = append(ml, o.Name())
	}
	sort.Strings(ml)
	hooks := filepath.Join(out, "bklv_hooks.go")
	writeIfChanged(hooks, []byte(hooksSrc))
	overlay[filepath.Join(repo, "bklv_hooks.go")] = hooks
	// the scheduler-aware stand-in for package sync (a virtual package of the repository's module)
	os.MkdirAll(filepath.Join(out, "bklvsync"), 0o755)
	shim := filepath.Join(out, "bklvsync", "bklvsync.go")
	writeIfChanged(shim, []byte(syncShimSrc))
	overlay[filepath.Join(repo, "bklvsync", "bklvsync.go")] = shim

	for k, v := range extra {
		overlay[k] = v
	}
	ov, _ := json.MarshalIndent(map[string]any{"Replace": overlay}, "", " ")
	writeIfChanged(filepath.Join(out, "overlay.json"), ov)
	sort.Strings(rangeSites)
	sort.Strings(sharedSites)
	sort.Strings(keySites)
	sort.Strings(goSites)
	sort.Strings(unmodelled)
	report["go_statement_sites"] = goSites
	report["files_with_sync_routed_to_shim"] = syncFiles
	report["unmodelled_sync_sites"] = unmodelled
	report["maps_keys_sites"] = keySites
	report["range_sites"] = rangeSites
	report["shared_sites"] = sharedSites
	report["globals"] = gl
	report["mutable_globals"] = ml
	report["tick_sites"] = ticks
	rb, _ := json.MarshalIndent(report, "", " ")
	writeIfChanged(filepath.Join(out, "report.json"), rb)
	fmt.Printf("vinstr: %d files, %d map-range sites, %d tick sites, %d mutable globals %v, %d shared-access sites, %d go statements, %d unmodelled sync sites\n", len(files), len(rangeSites), ticks, len(ml), ml, len(sharedSites), len(goSites), len(unmodelled))
}

// isMapType: a map type, or a type parameter whose constraint has a map core type (~map[K]V).
func isMapType(t types.Type) bool {
	if _, ok := t.Underlying().(*types.Map); ok {
		return true
	}
	tp, ok := t.(*types.TypeParam)
	if !ok {
		return false
	}
	iface, ok := tp.Constraint().Underlying().(*types.Interface)
	if !ok {
		return false
	}
	for i := 0; i < iface.NumEmbeddeds(); i++ {
		switch e := iface.EmbeddedType(i).(type) {
		case *types.Union:
			if e.Len() == 1 {
				if _, ok := e.Term(0).Type().Underlying().(*types.Map); ok {
					return true
				}
			}
		default:
			if _, ok := e.Underlying().(*types.Map); ok {
				return true
			}
		}
	}
	return false
}

func isNilNode(n ast.Node) bool {
	switch x := n.(type) {
	case ast.Stmt:
		return x == nil
	case ast.Expr:
		return x == nil
	}
	return n == nil
}

func writeIfChanged(path string, b []byte) {
	if old, err := os.ReadFile(path); err == nil && bytes.Equal(old, b) {
		return
	}
	if err := os.WriteFile(path, b, 0o644); err != nil {
		die(err)
	}
}

func die(err error) {
	fmt.Fprintln(os.Stderr, "vinstr:", err)
	os.Exit(1)
}

const hooksSrc = `package bkl

import (
	"fmt"
	"iter"
	"sort"

	"github.com/gopatchy/bkl/bklvsync"
)

// bklvGo stands for a go statement: a thread of the installed scheduler, or a plain goroutine.
func bklvGo(f func()) { bklvsync.Go(f) }

// Hooks installed by the verification harness (overlay build only).
var (
	// BklvChoose picks one of n alternatives (n >= 2) at a map-iteration choice
	// point; nil means "use the runtime's own order".
	BklvChoose func(site string, n int) int
	// BklvTickFn is called at every function and loop-body entry.
	BklvTickFn func()
	// BklvSharedFn is called before every statement touching a mutable
	// package-level variable.
	BklvSharedFn func(name string)
)

func bklvTick() {
	if BklvTickFn != nil {
		BklvTickFn()
	}
}

func bklvShared(name string) {
	if BklvSharedFn != nil {
		BklvSharedFn(name)
	}
}

func bklvKeys[M ~map[K]V, K comparable, V any](m M) iter.Seq[K] {
	return func(yield func(K) bool) {
		for k := range bklvIter(m, "keys") {
			if !yield(k) {
				return
			}
		}
	}
}

func bklvValues[M ~map[K]V, K comparable, V any](m M) iter.Seq[V] {
	return func(yield func(V) bool) {
		for _, v := range bklvIter(m, "keys") {
			if !yield(v) {
				return
			}
		}
	}
}

func bklvAll[M ~map[K]V, K comparable, V any](m M) iter.Seq2[K, V] { return bklvIter(m, "keys") }

func bklvKeysSlice[M ~map[K]V, K comparable, V any](m M) []K {
	r := make([]K, 0, len(m))
	for k := range bklvIter(m, "keys") {
		r = append(r, k)
	}
	return r
}

func bklvValuesSlice[M ~map[K]V, K comparable, V any](m M) []V {
	r := make([]V, 0, len(m))
	for _, v := range bklvIter(m, "keys") {
		r = append(r, v)
	}
	return r
}

func bklvRange[M ~map[K]V, K comparable, V any](m M) iter.Seq2[K, V] { return bklvIter(m, "range") }

// bklvIter iterates a map. Under an explorer every order permitted by the Go
// specification can be chosen: the next key is any key currently in the map
// and not yet produced; keys inserted during the loop may also be skipped.
func bklvIter[M ~map[K]V, K comparable, V any](m M, site string) iter.Seq2[K, V] {
	return func(yield func(K, V) bool) {
		if BklvChoose == nil {
			for k, v := range m {
				if !yield(k, v) {
					return
				}
			}
			return
		}
		initial := make(map[K]bool, len(m))
		for k := range m {
			initial[k] = true
		}
		produced := map[K]bool{}
		for {
			var cand []K
			onlyInserted := true
			for k := range m {
				if !produced[k] {
					cand = append(cand, k)
					if initial[k] {
						onlyInserted = false
					}
				}
			}
			if len(cand) == 0 {
				return
			}
			sort.Slice(cand, func(i, j int) bool { return fmt.Sprint(cand[i]) < fmt.Sprint(cand[j]) })
			n := len(cand)
			if onlyInserted {
				n++ // extra alternative: the runtime never reaches the inserted keys
			}
			i := 0
			if n > 1 {
				i = BklvChoose(site, n)
			}
			if i >= len(cand) {
				return
			}
			k := cand[i]
			produced[k] = true
			v, ok := m[k]
			if !ok {
				continue
			}
			if !yield(k, v) {
				return
			}
		}
	}
}
`

const syncShimSrc = `// Package bklvsync stands in for package sync in the instrumented build of package bkl
// (verification overlay only). With no scheduler installed every type behaves exactly like
// its original; under a scheduler, Lock/Wait/Do are scheduling points and block the calling
// thread in the scheduler instead of in the runtime.
package bklvsync

import "sync"

// Scheduler is implemented by the explorer.
type Scheduler interface {
	Go(f func())
	Yield(what string)
	WaitUntil(what string, cond func() bool)
}

var Sched Scheduler

func Go(f func()) {
	if s := Sched; s != nil {
		s.Go(f)
		return
	}
	go f()
}

type (
	Locker = sync.Locker
	Map    = sync.Map
	Pool   = sync.Pool
	Cond   = sync.Cond
)

func NewCond(l Locker) *Cond                          { return sync.NewCond(l) }
func OnceFunc(f func()) func()                        { return sync.OnceFunc(f) }
func OnceValue[T any](f func() T) func() T            { return sync.OnceValue(f) }
func OnceValues[A, B any](f func() (A, B)) func() (A, B) { return sync.OnceValues(f) }

type Mutex struct {
	mu   sync.Mutex
	held bool
}

func (m *Mutex) Lock() {
	if s := Sched; s != nil {
		s.Yield("Mutex.Lock")
		s.WaitUntil("Mutex.Lock", func() bool { return !m.held })
		m.held = true
		return
	}
	m.mu.Lock()
}

func (m *Mutex) TryLock() bool {
	if s := Sched; s != nil {
		s.Yield("Mutex.TryLock")
		if m.held {
			return false
		}
		m.held = true
		return true
	}
	return m.mu.TryLock()
}

func (m *Mutex) Unlock() {
	if Sched != nil {
		if !m.held {
			panic("sync: unlock of unlocked mutex")
		}
		m.held = false
		return
	}
	m.mu.Unlock()
}

type RWMutex struct {
	mu      sync.RWMutex
	writer  bool
	readers int
}

func (m *RWMutex) Lock() {
	if s := Sched; s != nil {
		s.Yield("RWMutex.Lock")
		s.WaitUntil("RWMutex.Lock", func() bool { return !m.writer && m.readers == 0 })
		m.writer = true
		return
	}
	m.mu.Lock()
}

func (m *RWMutex) Unlock() {
	if Sched != nil {
		if !m.writer {
			panic("sync: Unlock of unlocked RWMutex")
		}
		m.writer = false
		return
	}
	m.mu.Unlock()
}

func (m *RWMutex) RLock() {
	if s := Sched; s != nil {
		s.Yield("RWMutex.RLock")
		s.WaitUntil("RWMutex.RLock", func() bool { return !m.writer })
		m.readers++
		return
	}
	m.mu.RLock()
}

func (m *RWMutex) RUnlock() {
	if Sched != nil {
		if m.readers <= 0 {
			panic("sync: RUnlock of unlocked RWMutex")
		}
		m.readers--
		return
	}
	m.mu.RUnlock()
}

func (m *RWMutex) TryLock() bool {
	if s := Sched; s != nil {
		s.Yield("RWMutex.TryLock")
		if m.writer || m.readers > 0 {
			return false
		}
		m.writer = true
		return true
	}
	return m.mu.TryLock()
}

func (m *RWMutex) TryRLock() bool {
	if s := Sched; s != nil {
		s.Yield("RWMutex.TryRLock")
		if m.writer {
			return false
		}
		m.readers++
		return true
	}
	return m.mu.TryRLock()
}

type rlocker RWMutex

func (r *rlocker) Lock()   { (*RWMutex)(r).RLock() }
func (r *rlocker) Unlock() { (*RWMutex)(r).RUnlock() }

func (m *RWMutex) RLocker() Locker { return (*rlocker)(m) }

type WaitGroup struct {
	wg sync.WaitGroup
	n  int
}

func (w *WaitGroup) Add(delta int) {
	if Sched != nil {
		w.n += delta
		if w.n < 0 {
			panic("sync: negative WaitGroup counter")
		}
		return
	}
	w.wg.Add(delta)
}

func (w *WaitGroup) Done() { w.Add(-1) }

func (w *WaitGroup) Wait() {
	if s := Sched; s != nil {
		s.Yield("WaitGroup.Wait")
		s.WaitUntil("WaitGroup.Wait", func() bool { return w.n == 0 })
		return
	}
	w.wg.Wait()
}

type Once struct {
	once  sync.Once
	state int // 0 not run, 1 running, 2 done
}

func (o *Once) Do(f func()) {
	if s := Sched; s != nil {
		s.Yield("Once.Do")
		switch o.state {
		case 0:
			o.state = 1
			defer func() { o.state = 2 }()
			f()
		case 1:
			s.WaitUntil("Once.Do", func() bool { return o.state == 2 })
		}
		return
	}
	o.once.Do(f)
}
` + ""
