// Package core holds the value helpers, the worker pool, evidence and replay
// plumbing shared by every check.
package core

import (
	"encoding/json"
	"fmt"
	"hash/fnv"
	"math"
	"sort"
	"strconv"
	"strings"
)

// Clone returns a structural deep copy of a JSON-like tree. Scalars are
// immutable and shared.
func Clone(v any) any {
	switch x := v.(type) {
	case map[string]any:
		m := make(map[string]any, len(x))
		for k, c := range x {
			m[k] = Clone(c)
		}
		return m
	case []any:
		l := make([]any, len(x))
		for i, c := range x {
			l[i] = Clone(c)
		}
		return l
	default:
		return v
	}
}

// Canon renders a tree as a canonical string: keys sorted, floats tagged so that the
// integer 1 and the float 1.0 differ (the width of a Go integer type is not observed).
func Canon(v any) string {
	var b strings.Builder
	canon(&b, v, true)
	return b.String()
}

// CanonLoose is Canon with numbers compared by mathematical value: 1, 1.0 and
// int64(1) render identically.
func CanonLoose(v any) string {
	var b strings.Builder
	canon(&b, v, false)
	return b.String()
}

func canon(b *strings.Builder, v any, exact bool) {
	switch x := v.(type) {
	case nil:
		b.WriteString("null")
	case bool:
		if x {
			b.WriteString("true")
		} else {
			b.WriteString("false")
		}
	case string:
		q, _ := json.Marshal(x)
		b.Write(q)
	case int:
		b.WriteString(strconv.Itoa(x))
	case int64:
		// the Go integer type is not part of any property: int and int64 of one value are equal
		b.WriteString(strconv.FormatInt(x, 10))
	case uint64:
		b.WriteString(strconv.FormatUint(x, 10))
	case float32:
		canonFloat(b, float64(x), exact, "#f32")
	case float64:
		canonFloat(b, x, exact, "#f")
	case json.Number:
		b.WriteString(string(x))
		if exact {
			b.WriteString("#num")
		}
	case map[string]any:
		keys := make([]string, 0, len(x))
		for k := range x {
			keys = append(keys, k)
		}
		sort.Strings(keys)
		b.WriteByte('{')
		for i, k := range keys {
			if i > 0 {
				b.WriteByte(',')
			}
			q, _ := json.Marshal(k)
			b.Write(q)
			b.WriteByte(':')
			canon(b, x[k], exact)
		}
		b.WriteByte('}')
	case []any:
		b.WriteByte('[')
		for i, c := range x {
			if i > 0 {
				b.WriteByte(',')
			}
			canon(b, c, exact)
		}
		b.WriteByte(']')
	default:
		fmt.Fprintf(b, "<%T:%v>", v, v)
	}
}

func canonFloat(b *strings.Builder, f float64, exact bool, tag string) {
	if !exact && f == math.Trunc(f) && math.Abs(f) < 1e18 {
		b.WriteString(strconv.FormatInt(int64(f), 10))
		return
	}
	b.WriteString(strconv.FormatFloat(f, 'g', -1, 64))
	if exact {
		b.WriteString(tag)
	}
}

// Equal is type-exact structural equality.
func Equal(a, b any) bool { return Canon(a) == Canon(b) }

// EqualLoose compares numbers by value.
func EqualLoose(a, b any) bool { return CanonLoose(a) == CanonLoose(b) }

// Hash64 is FNV-1a of a string.
func Hash64(s string) uint64 {
	h := fnv.New64a()
	h.Write([]byte(s))
	return h.Sum64()
}

// JSON renders any value for messages (never fails).
func JSON(v any) string {
	b, err := json.Marshal(v)
	if err != nil {
		return fmt.Sprintf("%#v", v)
	}
	return string(b)
}

// Size counts nodes of a tree (scalars and containers).
func Size(v any) int {
	switch x := v.(type) {
	case map[string]any:
		n := 1
		for _, c := range x {
			n += Size(c)
		}
		return n
	case []any:
		n := 1
		for _, c := range x {
			n += Size(c)
		}
		return n
	default:
		return 1
	}
}

// SortedKeys returns the keys of m in ascending order.
func SortedKeys(m map[string]any) []string {
	keys := make([]string, 0, len(m))
	for k := range m {
		keys = append(keys, k)
	}
	sort.Strings(keys)
	return keys
}

// Walk calls f for every node (pre-order) with its path.
func Walk(v any, path []any, f func(path []any, v any)) {
	f(path, v)
	switch x := v.(type) {
	case map[string]any:
		for _, k := range SortedKeys(x) {
			Walk(x[k], append(append([]any{}, path...), k), f)
		}
	case []any:
		for i, c := range x {
			Walk(c, append(append([]any{}, path...), i), f)
		}
	}
}

// EqualIntsExact compares got against want where an integer in want must come
// back as an integer (of any integer type) of the same value, while a float in
// want may come back as any number of the same value (2.0 may read back as 2).
func EqualIntsExact(got, want any) bool {
	switch w := want.(type) {
	case map[string]any:
		g, ok := got.(map[string]any)
		if !ok || len(g) != len(w) {
			return false
		}
		for k, wv := range w {
			gv, ok := g[k]
			if !ok || !EqualIntsExact(gv, wv) {
				return false
			}
		}
		return true
	case []any:
		g, ok := got.([]any)
		if !ok || len(g) != len(w) {
			return false
		}
		for i := range w {
			if !EqualIntsExact(g[i], w[i]) {
				return false
			}
		}
		return true
	case int, int64:
		switch got.(type) {
		case int, int64:
			return CanonLoose(got) == CanonLoose(want)
		}
		return false
	case float64:
		switch got.(type) {
		case int, int64, float64:
			return CanonLoose(got) == CanonLoose(want)
		}
		return false
	default:
		return Canon(got) == Canon(want)
	}
}
