package core

import (
	"crypto/sha1"
	"encoding/hex"
	"encoding/json"
	"fmt"
	"os"
	"os/exec"
	"path/filepath"
	"regexp"
	"sort"
	"time"
)

type Finding struct {
	Status    string `json:"status"` // "known" or "fixed"
	Property  string `json:"property"`
	Oracle    string `json:"oracle,omitempty"`
	Class     string `json:"class,omitempty"`
	Witness   string `json:"witness,omitempty"`
	WitnessRE string `json:"witness_re,omitempty"`
	What      string `json:"what"`
	Commit    string `json:"commit,omitempty"`
}

type findingsFile struct {
	Findings []Finding `json:"findings"`
}

func loadFindings() []Finding {
	b, err := os.ReadFile(filepath.Join(VerifDir(), "known_findings.json"))
	if err != nil {
		return nil
	}
	var f findingsFile
	if err := json.Unmarshal(b, &f); err != nil {
		fmt.Fprintln(os.Stderr, "known_findings.json:", err)
		return nil
	}
	return f.Findings
}

func (f *Finding) matches(v *Violation) bool {
	if f.Status != "known" || f.Property != v.Property {
		return false
	}
	if f.Oracle != v.Oracle || f.Class != v.Class {
		return false
	}
	if f.WitnessRE != "" {
		re, err := regexp.Compile("^(?:" + f.WitnessRE + ")$")
		return err == nil && re.MatchString(v.Witness)
	}
	return f.Witness == v.Witness
}

func (a *Agg) finish() int {
	wall := time.Since(a.Start).Seconds()
	findings := loadFindings()

	var vs []*Violation
	for _, v := range a.Violations {
		vs = append(vs, v)
	}
	sort.Slice(vs, func(i, j int) bool {
		if vs[i].Space != vs[j].Space {
			return vs[i].Space < vs[j].Space
		}
		if vs[i].Index != vs[j].Index {
			return vs[i].Index < vs[j].Index
		}
		return vs[i].key() < vs[j].key()
	})

	known := map[int]int64{}
	var unknown []*Violation
	for _, v := range vs {
		matched := false
		for fi := range findings {
			if findings[fi].matches(v) {
				known[fi] += v.Count
				matched = true
				break
			}
		}
		if !matched {
			unknown = append(unknown, v)
		}
	}

	for fi, n := range known {
		fmt.Printf("KNOWN-FINDING: property=%s %s (oracle=%s class=%s, %d case(s))\n", a.Check, findings[fi].What, findings[fi].Oracle, findings[fi].Class, n)
	}

	replayDir := filepath.Join(OutDir(), "replay", a.Check)
	var replayPaths []string
	for i, v := range unknown {
		if i >= 25 {
			break
		}
		os.MkdirAll(replayDir, 0o755)
		b, _ := json.MarshalIndent(v, "", " ")
		h := sha1.Sum([]byte(v.key()))
		p := filepath.Join(replayDir, fmt.Sprintf("%s-%s.json", a.Tier, hex.EncodeToString(h[:6])))
		os.WriteFile(p, b, 0o644)
		replayPaths = append(replayPaths, p)
	}
	// Re-run the first few in fresh processes: a believed failure must fail
	// the same way every time.
	repro := map[string]string{}
	if exe, err := os.Executable(); err == nil && os.Getenv("VMC_NO_CONFIRM") == "" {
		for i, p := range replayPaths {
			if i >= 3 || unknown[i].Oracle == "terminates" {
				break
			}
			ok := 0
			for r := 0; r < 3; r++ {
				cmd := exec.Command(exe, "replay", p)
				cmd.Env = append(os.Environ(), "VMC_QUIET=1")
				if err := cmd.Run(); err != nil {
					if ee, ok2 := err.(*exec.ExitError); ok2 && ee.ExitCode() == 1 {
						ok++
					}
				}
			}
			repro[p] = fmt.Sprintf("%d/3", ok)
		}
	}

	cov := map[string]any{
		"states":                        max64(int64(len(a.States)), 0),
		"transitions":                   a.Stats.Trans,
		"traces_validated_against_impl": a.Stats.Validated,
		"evaluations":                   a.Stats.Evals,
		"distinct_nontrivial":           a.Stats.Nontrivial,
		"unspecified_cases":             a.Stats.Unspec,
		"rule":                          a.Plan.Rule,
		"exhaustive":                    a.Exhaustive,
		"outcome_classes":               a.Stats.Outcomes,
		"spaces":                        a.PerSpace,
		"samples":                       a.Stats.Samples,
		"worker_crashes":                a.Crashes,
	}
	if len(a.Stats.Extra) > 0 {
		cov["counters"] = a.Stats.Extra
	}
	if a.Plan.Bounds != nil {
		cov["bounds"] = a.Plan.Bounds
	}
	if len(a.Notes) > 0 {
		cov["notes"] = a.Notes
	}
	for k, v := range a.ExtraCov {
		cov[k] = v
	}
	if len(a.Stats.Samples) == 0 {
		cov["samples"] = []any{"(no sample recorded)"}
	}
	var knownList []string
	for fi, n := range known {
		knownList = append(knownList, fmt.Sprintf("%s (%d cases)", findings[fi].What, n))
	}
	sort.Strings(knownList)
	if len(knownList) > 0 {
		cov["known_findings_hit"] = knownList
	}
	if len(unknown) > 0 {
		var ul []any
		for i, v := range unknown {
			if i >= 10 {
				break
			}
			ul = append(ul, map[string]any{"oracle": v.Oracle, "class": v.Class, "witness": v.Witness, "space": v.Space, "index": v.Index, "count": v.Count})
		}
		cov["violations_found"] = ul
		cov["replay_confirmation"] = repro
	}
	ev := map[string]any{
		"property_id": a.Check,
		"tier":        a.Tier,
		"seed":        a.Seed,
		"level":       "model_checking",
		"coverage":    cov,
		"assumptions": a.Plan.Assumptions,
		"wall_s":      wall,
		"violations":  len(unknown),
	}
	if a.Plan.Assumptions == nil {
		ev["assumptions"] = []string{}
	}
	os.MkdirAll(filepath.Join(OutDir(), "evidence"), 0o755)
	b, _ := json.MarshalIndent(ev, "", " ")
	os.WriteFile(filepath.Join(OutDir(), "evidence", a.Check+".json"), append(b, '\n'), 0o644)

	fmt.Printf("%s %s: cases=%d evals=%d transitions=%d states=%d validated=%d unspecified=%d nontrivial=%d exhaustive=%v wall=%.1fs\n",
		a.Check, a.Tier, sumSpaces(a.PerSpace), a.Stats.Evals, a.Stats.Trans, len(a.States), a.Stats.Validated, a.Stats.Unspec, a.Stats.Nontrivial, a.Exhaustive, wall)
	okeys := make([]string, 0, len(a.Stats.Outcomes))
	for k := range a.Stats.Outcomes {
		okeys = append(okeys, k)
	}
	sort.Strings(okeys)
	for _, k := range okeys {
		fmt.Printf("  outcome %-40s %d\n", k, a.Stats.Outcomes[k])
	}
	for _, n := range a.Notes {
		fmt.Println("  note:", n)
	}
	if len(unknown) == 0 {
		return 0
	}
	for i, v := range unknown {
		if i < len(replayPaths) {
			fmt.Printf("VIOLATION property=%s replay=%s\n", a.Check, replayPaths[i])
			fmt.Printf("  oracle=%s class=%s count=%d witness=%s reproduced=%s\n", v.Oracle, v.Class, v.Count, v.Witness, repro[replayPaths[i]])
		}
	}
	if len(unknown) > len(replayPaths) {
		fmt.Printf("  (+%d further distinct violations not written)\n", len(unknown)-len(replayPaths))
	}
	return 1
}

func max64(a, b int64) int64 {
	if a > b {
		return a
	}
	return b
}

func sumSpaces(m map[string]int64) int64 {
	var n int64
	for _, v := range m {
		n += v
	}
	return n
}

// OutDir is where evidence and replay files go: /verif, unless VERIF_OUT_DIR
// redirects them (used by the detection scripts so that runs against a
// deliberately broken tree do not overwrite the committed evidence).
func OutDir() string {
	if d := os.Getenv("VERIF_OUT_DIR"); d != "" {
		return d
	}
	return VerifDir()
}
