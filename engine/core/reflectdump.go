package core

import (
	"fmt"
	"reflect"
	"sort"
	"strings"
	"unsafe"
)

// DumpState renders everything reachable from v — through unexported fields
// as well — as a canonical string. Pointers, maps and slices get a sequence
// number at first visit and print as a back-reference afterwards, so the dump
// also encodes the sharing partition. Values of types outside pkgPrefix
// (os.Root, sync.Mutex, ...) are opaque: only type and nil-ness are printed.
func DumpState(v any, pkgPrefix string) string {
	d := &dumper{seen: map[uintptr]int{}, pkg: pkgPrefix}
	d.dump(reflect.ValueOf(v), 0)
	return d.b.String()
}

type dumper struct {
	b    strings.Builder
	seen map[uintptr]int
	pkg  string
}

func (d *dumper) ref(p uintptr) bool {
	if p == 0 {
		return false
	}
	if id, ok := d.seen[p]; ok {
		fmt.Fprintf(&d.b, "@%d", id)
		return true
	}
	d.seen[p] = len(d.seen) + 1
	fmt.Fprintf(&d.b, "#%d", len(d.seen))
	return false
}

func (d *dumper) opaque(t reflect.Type) bool {
	p := t.PkgPath()
	if p == "" {
		return false
	}
	return !strings.HasPrefix(p, d.pkg)
}

func (d *dumper) dump(v reflect.Value, depth int) {
	if depth > 200 {
		d.b.WriteString("<deep>")
		return
	}
	if !v.IsValid() {
		d.b.WriteString("nil")
		return
	}
	t := v.Type()
	switch v.Kind() {
	case reflect.Interface:
		if v.IsNil() {
			d.b.WriteString("nil")
			return
		}
		d.dump(v.Elem(), depth+1)
	case reflect.Ptr:
		if v.IsNil() {
			d.b.WriteString("nil")
			return
		}
		if d.opaque(t.Elem()) {
			fmt.Fprintf(&d.b, "<*%s>", t.Elem().String())
			return
		}
		if d.ref(v.Pointer()) {
			return
		}
		d.b.WriteByte('&')
		d.dump(v.Elem(), depth+1)
	case reflect.Struct:
		if d.opaque(t) {
			fmt.Fprintf(&d.b, "<%s>", t.String())
			return
		}
		d.b.WriteString(t.Name())
		d.b.WriteByte('{')
		for i := 0; i < v.NumField(); i++ {
			f := v.Field(i)
			if !f.CanInterface() {
				if f.CanAddr() {
					f = reflect.NewAt(f.Type(), unsafe.Pointer(f.UnsafeAddr())).Elem()
				} else {
					// copy into addressable storage
					tmp := reflect.New(t).Elem()
					tmp.Set(v)
					f = tmp.Field(i)
					f = reflect.NewAt(f.Type(), unsafe.Pointer(f.UnsafeAddr())).Elem()
				}
			}
			d.b.WriteString(t.Field(i).Name)
			d.b.WriteByte(':')
			d.dump(f, depth+1)
			d.b.WriteByte(';')
		}
		d.b.WriteByte('}')
	case reflect.Map:
		if v.IsNil() {
			d.b.WriteString("nilmap")
			return
		}
		if d.ref(v.Pointer()) {
			return
		}
		keys := v.MapKeys()
		sort.Slice(keys, func(i, j int) bool { return fmt.Sprint(keys[i].Interface()) < fmt.Sprint(keys[j].Interface()) })
		d.b.WriteByte('{')
		for _, k := range keys {
			fmt.Fprintf(&d.b, "%q:", fmt.Sprint(k.Interface()))
			d.dump(v.MapIndex(k), depth+1)
			d.b.WriteByte(',')
		}
		d.b.WriteByte('}')
	case reflect.Slice:
		if v.IsNil() {
			d.b.WriteString("nilslice")
			return
		}
		if v.Len() > 0 && d.ref(v.Pointer()) {
			return
		}
		if t.Elem().Kind() == reflect.Uint8 {
			fmt.Fprintf(&d.b, "%q", v.Bytes())
			return
		}
		d.b.WriteByte('[')
		for i := 0; i < v.Len(); i++ {
			d.dump(v.Index(i), depth+1)
			d.b.WriteByte(',')
		}
		d.b.WriteByte(']')
	case reflect.Array:
		d.b.WriteByte('[')
		for i := 0; i < v.Len(); i++ {
			d.dump(v.Index(i), depth+1)
			d.b.WriteByte(',')
		}
		d.b.WriteByte(']')
	case reflect.String:
		fmt.Fprintf(&d.b, "%q", v.String())
	case reflect.Bool:
		fmt.Fprintf(&d.b, "%v", v.Bool())
	case reflect.Int, reflect.Int8, reflect.Int16, reflect.Int32, reflect.Int64:
		fmt.Fprintf(&d.b, "%d(%s)", v.Int(), t.Kind())
	case reflect.Uint, reflect.Uint8, reflect.Uint16, reflect.Uint32, reflect.Uint64, reflect.Uintptr:
		fmt.Fprintf(&d.b, "%d(%s)", v.Uint(), t.Kind())
	case reflect.Float32, reflect.Float64:
		fmt.Fprintf(&d.b, "%v(%s)", v.Float(), t.Kind())
	case reflect.Func, reflect.Chan, reflect.UnsafePointer:
		if v.IsNil() {
			d.b.WriteString("nil")
		} else {
			fmt.Fprintf(&d.b, "<%s>", t.Kind())
		}
	default:
		fmt.Fprintf(&d.b, "<%s>", t.Kind())
	}
}
