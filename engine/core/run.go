package core

import (
	"bufio"
	"encoding/binary"
	"encoding/json"
	"fmt"
	"io"
	"os"
	"os/exec"
	"path/filepath"
	"runtime"
	"runtime/debug"
	"sort"
	"strconv"
	"strings"
	"sync"
	"syscall"
	"time"
)

// A Space is a finite, indexable set of cases. Run executes case i against the
// implementation and reports through the Ctx.
type Space struct {
	Name string
	N    int64
	Run  func(c *Ctx, i int64)
	// Desc renders case i for samples and replay files (optional).
	Desc func(i int64) any
	// Chunk overrides the number of cases handed to a worker at once.
	Chunk int64
}

// A Plan is what a check explores in one tier.
type Plan struct {
	Spaces      []Space
	Rule        string
	Assumptions []string
	Bounds      map[string]any // recorded verbatim in the evidence
	// Post runs in the parent after all spaces completed (optional).
	Post func(a *Agg)
}

// A Check builds its plan for a tier ("quick" or "thorough").
type Check struct {
	ID    string
	Title string
	Build func(tier string) *Plan
}

var registry = map[string]*Check{}

// ExtraCommands are additional vmc sub-commands registered by build-tagged files.
var ExtraCommands = map[string]func(args []string) int{}

func Register(c *Check) { registry[c.ID] = c }

func Lookup(id string) *Check { return registry[id] }

func AllChecks() []string {
	ids := []string{}
	for id := range registry {
		ids = append(ids, id)
	}
	sort.Strings(ids)
	return ids
}

type Violation struct {
	Property string `json:"property"`
	Tier     string `json:"tier"`
	Space    string `json:"space"`
	Index    int64  `json:"index"`
	Oracle   string `json:"oracle"`
	Class    string `json:"class"`
	Witness  string `json:"witness"`
	Case     any    `json:"case,omitempty"`
	Detail   any    `json:"detail,omitempty"`
	Count    int64  `json:"count"`
}

func (v *Violation) key() string { return v.Oracle + "\x00" + v.Class + "\x00" + v.Witness }

type Stats struct {
	Evals      int64            `json:"evals"`
	Trans      int64            `json:"trans"`
	Validated  int64            `json:"validated"`
	Unspec     int64            `json:"unspec"`
	Nontrivial int64            `json:"nontrivial"`
	Outcomes   map[string]int64 `json:"outcomes"`
	Extra      map[string]int64 `json:"extra"`
	NewStates  []uint64         `json:"new_states,omitempty"`
	Samples    []any            `json:"samples,omitempty"`
}

// Ctx is the per-worker recorder handed to Space.Run.
type Ctx struct {
	Tier    string
	Check   string
	stats   Stats
	states  map[uint64]struct{}
	viol    map[string]*Violation
	space   *Space
	index   int64
	prog    *os.File
	progN   uint64
	Replay  bool // true when re-running one case for `replay`
	Verbose bool
	caseNT  bool

	expensive map[string]int
}

func newCtx(check, tier string) *Ctx {
	c := &Ctx{Tier: tier, Check: check, states: map[uint64]struct{}{}, viol: map[string]*Violation{}}
	c.resetStats()
	return c
}

func (c *Ctx) resetStats() {
	c.stats = Stats{Outcomes: map[string]int64{}, Extra: map[string]int64{}}
}

// Eval counts one execution against the implementation.
func (c *Ctx) Eval() {
	c.stats.Evals++
	if c.stats.Evals&1023 == 0 {
		c.progress()
	}
}

// Trans counts n API operations (transitions) executed on the implementation.
func (c *Ctx) Trans(n int) { c.stats.Trans += int64(n) }

// Validated counts one model trace (a case with a definite model verdict)
// compared against the implementation.
func (c *Ctx) Validated() { c.stats.Validated++ }

// Unspec counts a case executed but not judged (an Unspecified zone).
func (c *Ctx) Unspec() { c.stats.Unspec++ }

// Nontrivial marks the current case as non-trivial by the check's rule (at
// most once per case).
func (c *Ctx) Nontrivial() {
	if !c.caseNT {
		c.caseNT = true
		c.stats.Nontrivial++
	}
}

// NontrivialSub counts one distinct non-trivial sub-case (a history enumerated
// inside a coarse case; distinct by construction).
func (c *Ctx) NontrivialSub() { c.stats.Nontrivial++ }

func (c *Ctx) Outcome(class string) { c.stats.Outcomes[class]++ }

func (c *Ctx) Extra(key string, n int64) { c.stats.Extra[key] += n }

// State records a distinct implementation state / observation by canonical key.
func (c *Ctx) State(key string) {
	h := Hash64(key)
	if _, ok := c.states[h]; ok {
		return
	}
	if len(c.states) >= 4_000_000 {
		c.stats.Extra["states_capped"] = 1
		return
	}
	c.states[h] = struct{}{}
	c.stats.NewStates = append(c.stats.NewStates, h)
}

func (c *Ctx) Sample(v any) {
	if len(c.stats.Samples) < 3 {
		c.stats.Samples = append(c.stats.Samples, v)
	}
}

// Expensive marks the failure just recorded as costly to reproduce (a hang, a crash, an
// exceeded step budget). A worker that has seen four of them in one space skips the rest of
// that space: the tree is broken beyond doubt and every further case may cost minutes.
func (c *Ctx) Expensive() {
	if c.space != nil {
		if c.expensive == nil {
			c.expensive = map[string]int{}
		}
		c.expensive[c.space.Name]++
	}
}

func (c *Ctx) spaceExhausted(sp *Space) bool { return c.expensive[sp.Name] >= 4 }

// Fail records a violation for the current case. witness is the canonical
// (shrunk) form used to match known findings; detail is free-form.
func (c *Ctx) Fail(oracle, class, witness string, detail any) {
	v := &Violation{Property: c.Check, Tier: c.Tier, Oracle: oracle, Class: class, Witness: witness, Detail: detail, Count: 1}
	if c.space != nil {
		v.Space = c.space.Name
		v.Index = c.index
		if c.space.Desc != nil {
			v.Case = c.space.Desc(c.index)
		}
	}
	if old, ok := c.viol[v.key()]; ok {
		old.Count++
		return
	}
	if len(c.viol) < 2000 {
		c.viol[v.key()] = v
	}
	if c.Replay || c.Verbose {
		fmt.Printf("FAIL oracle=%s class=%s witness=%s\n  detail=%s\n", oracle, class, witness, JSON(detail))
	}
}

func (c *Ctx) progress() {
	if c.prog == nil {
		return
	}
	c.progN++
	var buf [24]byte
	binary.LittleEndian.PutUint64(buf[0:], uint64(c.index))
	binary.LittleEndian.PutUint64(buf[8:], c.progN)
	c.prog.WriteAt(buf[:16], 0)
}

func (c *Ctx) runCase(sp *Space, i int64) {
	c.space, c.index, c.caseNT = sp, i, false
	c.progress()
	defer func() {
		if r := recover(); r != nil {
			st := string(debug.Stack())
			c.Fail("no-panic", "panic", panicSite(st), map[string]any{"panic": fmt.Sprint(r), "stack": trimStack(st)})
		}
	}()
	sp.Run(c, i)
}

// RepoDir is the checkout being checked (frames under it identify the bkl site of a panic).
func RepoDir() string {
	if d := os.Getenv("VERIF_REPO"); d != "" {
		return d
	}
	return "/repo"
}

// panicSite extracts the first frame inside /repo from a stack trace: the
// witness of a panic is where in bkl it happened.
func panicSite(st string) string {
	lines := strings.Split(st, "\n")
	for i, l := range lines {
		if strings.Contains(l, "panic(") {
			for _, m := range lines[i+1:] {
				m = strings.TrimSpace(m)
				if strings.HasPrefix(m, RepoDir()+"/") {
					if j := strings.Index(m, " "); j > 0 {
						m = m[:j]
					}
					return m
				}
			}
		}
	}
	for _, m := range lines {
		m = strings.TrimSpace(m)
		if strings.HasPrefix(m, RepoDir()+"/") {
			if j := strings.Index(m, " "); j > 0 {
				m = m[:j]
			}
			return m
		}
	}
	return "unknown"
}

func trimStack(st string) string {
	if len(st) > 3000 {
		return st[:3000]
	}
	return st
}

type chunkResult struct {
	Stats      Stats        `json:"stats"`
	Violations []*Violation `json:"violations"`
	Truncated  bool         `json:"truncated,omitempty"`
}

// WorkerMain is the body of a worker subprocess: it reads "space lo hi" lines
// and answers each with one JSON line.
func WorkerMain(checkID, tier string) {
	debug.SetMaxStack(64 << 20)
	// The sandbox has no memory limit of its own: a tree that allocates without bound must kill
	// this worker (recorded as the failing case), not the machine.
	memGB := uint64(8)
	if v := os.Getenv("VMC_WORKER_MEM_GB"); v != "" {
		if n, err := strconv.ParseUint(v, 10, 64); err == nil && n > 0 {
			memGB = n
		}
	}
	lim := syscall.Rlimit{Cur: memGB << 30, Max: memGB << 30}
	syscall.Setrlimit(syscall.RLIMIT_AS, &lim)
	// A modest descriptor limit (the harness itself keeps a few hundred open: parser roots, pipes,
	// inotify): code under test that leaks one descriptor per evaluation runs out within one space
	// instead of never, on a machine whose default limit is in the millions.
	var nofile syscall.Rlimit
	if syscall.Getrlimit(syscall.RLIMIT_NOFILE, &nofile) == nil && (nofile.Cur > 2048 || nofile.Cur == 0) {
		nofile.Cur = 2048
		syscall.Setrlimit(syscall.RLIMIT_NOFILE, &nofile)
	}
	ck := Lookup(checkID)
	if ck == nil {
		fmt.Fprintln(os.Stderr, "unknown check", checkID)
		os.Exit(2)
	}
	plan := ck.Build(tier)
	c := newCtx(checkID, tier)
	if p := os.Getenv("VMC_PROGRESS"); p != "" {
		f, err := os.OpenFile(p, os.O_RDWR|os.O_CREATE, 0o644)
		if err == nil {
			c.prog = f
		}
	}
	in := bufio.NewReader(os.Stdin)
	out := bufio.NewWriterSize(os.Stdout, 1<<20)
	for {
		line, err := in.ReadString('\n')
		if err != nil {
			return
		}
		f := strings.Fields(line)
		if len(f) != 3 {
			continue
		}
		si, _ := strconv.Atoi(f[0])
		lo, _ := strconv.ParseInt(f[1], 10, 64)
		hi, _ := strconv.ParseInt(f[2], 10, 64)
		sp := &plan.Spaces[si]
		truncated := false
		for i := lo; i < hi; i++ {
			if c.spaceExhausted(sp) {
				truncated = true
				break
			}
			c.runCase(sp, i)
			if len(c.viol) >= 40 {
				// a tree this broken needs no further cases from this chunk (each may be
				// expensive: step budgets, crashes); the parent records the truncation
				truncated = i+1 < hi
				break
			}
		}
		if sp.Desc != nil && lo < hi {
			c.Sample(map[string]any{"space": sp.Name, "index": lo, "case": sp.Desc(lo)})
		}
		res := chunkResult{Stats: c.stats, Truncated: truncated}
		for _, v := range c.viol {
			res.Violations = append(res.Violations, v)
		}
		b, _ := json.Marshal(res)
		out.Write(b)
		out.WriteByte('\n')
		out.Flush()
		c.resetStats()
		c.viol = map[string]*Violation{}
	}
}

// Agg is the parent's aggregate over all workers.
type Agg struct {
	Check      string
	Tier       string
	Seed       int64
	Stats      Stats
	States     map[uint64]struct{}
	Violations map[string]*Violation
	PerSpace   map[string]int64
	Exhaustive bool
	Crashes    int
	abort      bool
	truncated  int
	hangs      int
	extKills   map[[2]int64]int
	Notes      []string
	Start      time.Time
	Plan       *Plan
	ExtraCov   map[string]any
}

func (a *Agg) add(r *chunkResult) {
	s := &a.Stats
	s.Evals += r.Stats.Evals
	s.Trans += r.Stats.Trans
	s.Validated += r.Stats.Validated
	s.Unspec += r.Stats.Unspec
	s.Nontrivial += r.Stats.Nontrivial
	for k, v := range r.Stats.Outcomes {
		s.Outcomes[k] += v
	}
	for k, v := range r.Stats.Extra {
		s.Extra[k] += v
	}
	for _, h := range r.Stats.NewStates {
		a.States[h] = struct{}{}
	}
	for _, smp := range r.Stats.Samples {
		if len(s.Samples) < 6 {
			s.Samples = append(s.Samples, smp)
		}
	}
	for _, v := range r.Violations {
		a.AddViolation(v)
	}
	if r.Truncated {
		a.Exhaustive = false
		a.truncated++
	}
	if len(a.Violations) > 300 && !a.abort {
		a.abort = true
		a.Exhaustive = false
		a.Notes = append(a.Notes, "more than 300 distinct violations; exploration stopped early")
	}
}

func (a *Agg) AddViolation(v *Violation) {
	if old, ok := a.Violations[v.key()]; ok {
		old.Count += v.Count
		if v.Space < old.Space || (v.Space == old.Space && v.Index < old.Index) {
			v.Count = old.Count
			a.Violations[v.key()] = v
		}
		return
	}
	a.Violations[v.key()] = v
}

type chunk struct {
	space  int
	lo, hi int64
}

// WorkDir is where binaries, overlays and scratch trees live.
func WorkDir() string {
	if d := os.Getenv("VERIF_WORK"); d != "" {
		return d
	}
	return "/verif/.work"
}

func VerifDir() string {
	if d := os.Getenv("VERIF_DIR"); d != "" {
		return d
	}
	return "/verif"
}

// RunCheck drives a whole check in the parent process and returns the exit code.
func RunCheck(checkID, tier string) int {
	ck := Lookup(checkID)
	if ck == nil {
		fmt.Fprintln(os.Stderr, "unknown check", checkID)
		return 2
	}
	seed := int64(0)
	if s := os.Getenv("VERIF_SEED"); s != "" {
		seed, _ = strconv.ParseInt(s, 10, 64)
	}
	plan := ck.Build(tier)
	a := &Agg{Check: checkID, Tier: tier, Seed: seed, States: map[uint64]struct{}{}, Violations: map[string]*Violation{},
		PerSpace: map[string]int64{}, Exhaustive: true, Start: time.Now(), Plan: plan, ExtraCov: map[string]any{}}
	a.Stats.Outcomes = map[string]int64{}
	a.Stats.Extra = map[string]int64{}

	workers := runtime.NumCPU()
	if w := os.Getenv("VERIF_WORKERS"); w != "" {
		workers, _ = strconv.Atoi(w)
	}
	if workers > 16 {
		workers = 16
	}
	var chunks []chunk
	for si, sp := range plan.Spaces {
		a.PerSpace[sp.Name] = sp.N
		cs := sp.Chunk
		if cs <= 0 {
			cs = sp.N / int64(workers*12)
			if cs < 1 {
				cs = 1
			}
			if cs > 50000 {
				cs = 50000
			}
		}
		for lo := int64(0); lo < sp.N; lo += cs {
			hi := lo + cs
			if hi > sp.N {
				hi = sp.N
			}
			chunks = append(chunks, chunk{si, lo, hi})
		}
	}
	// VERIF_SEED only rotates the order in which chunks are handed out; it
	// never changes which cases are run.
	if len(chunks) > 0 && seed != 0 {
		r := int(uint64(seed) % uint64(len(chunks)))
		chunks = append(chunks[r:], chunks[:r]...)
	}

	deadline := time.Duration(0)
	if d := os.Getenv("VERIF_DEADLINE_S"); d != "" {
		n, _ := strconv.Atoi(d)
		deadline = time.Duration(n) * time.Second
	} else if tier == "quick" {
		deadline = 20 * time.Minute
	} else {
		deadline = 6 * time.Hour
	}

	var mu sync.Mutex
	next := 0
	take := func() (chunk, bool) {
		mu.Lock()
		defer mu.Unlock()
		if next >= len(chunks) || a.abort {
			return chunk{}, false
		}
		if time.Since(a.Start) > deadline {
			if a.Exhaustive {
				a.Exhaustive = false
				a.Notes = append(a.Notes, fmt.Sprintf("deadline %s reached with %d of %d chunks handed out", deadline, next, len(chunks)))
			}
			return chunk{}, false
		}
		c := chunks[next]
		next++
		return c, true
	}

	os.MkdirAll(filepath.Join(WorkDir(), "progress"), 0o755)
	var wg sync.WaitGroup
	for w := 0; w < workers; w++ {
		wg.Add(1)
		go func(w int) {
			defer wg.Done()
			a.workerLoop(w, plan, take, &mu)
		}(w)
	}
	wg.Wait()

	if plan.Post != nil {
		plan.Post(a)
	}
	return a.finish()
}

type workerProc struct {
	cmd     *exec.Cmd
	in      io.WriteCloser
	out     *bufio.Reader
	errBuf  *tailBuffer
	progF   string
	waitErr chan error
}

type tailBuffer struct {
	mu  sync.Mutex
	buf []byte
}

func (t *tailBuffer) Write(p []byte) (int, error) {
	t.mu.Lock()
	defer t.mu.Unlock()
	t.buf = append(t.buf, p...)
	if len(t.buf) > 16384 {
		// keep head (panic/fatal message) and tail
		head := append([]byte{}, t.buf[:6000]...)
		tail := t.buf[len(t.buf)-6000:]
		t.buf = append(append(head, []byte("\n...\n")...), tail...)
	}
	return len(p), nil
}

func (t *tailBuffer) String() string {
	t.mu.Lock()
	defer t.mu.Unlock()
	return string(t.buf)
}

func startWorker(check, tier string, w int) (*workerProc, error) {
	exe, err := os.Executable()
	if err != nil {
		return nil, err
	}
	prog := filepath.Join(WorkDir(), "progress", fmt.Sprintf("%s-%s-%d-%d", check, tier, os.Getpid(), w))
	os.WriteFile(prog, make([]byte, 16), 0o644)
	cmd := exec.Command(exe, "worker", check, tier)
	cmd.Env = append(os.Environ(), "VMC_PROGRESS="+prog, "GOMAXPROCS=2", fmt.Sprintf("VMC_WORKER=%d", w), "GOTRACEBACK=single")
	in, _ := cmd.StdinPipe()
	out, _ := cmd.StdoutPipe()
	tb := &tailBuffer{}
	cmd.Stderr = tb
	if err := cmd.Start(); err != nil {
		return nil, err
	}
	return &workerProc{cmd: cmd, in: in, out: bufio.NewReaderSize(out, 1<<20), errBuf: tb, progF: prog}, nil
}

func (p *workerProc) stop() {
	// closing stdin lets the worker return from main (a coverage build writes its counters
	// then); it is killed only if it does not leave
	p.in.Close()
	done := make(chan struct{})
	go func() { p.cmd.Wait(); close(done) }()
	select {
	case <-done:
	case <-time.After(5 * time.Second):
		p.cmd.Process.Kill()
		<-done
	}
	os.Remove(p.progF)
}

func (p *workerProc) progress() (int64, uint64) {
	b, err := os.ReadFile(p.progF)
	if err != nil || len(b) < 16 {
		return -1, 0
	}
	return int64(binary.LittleEndian.Uint64(b[0:])), binary.LittleEndian.Uint64(b[8:])
}

// HangLimit is the no-progress time after which a case is nominated as a hang.
var HangLimit = 240 * time.Second

func (a *Agg) workerLoop(w int, plan *Plan, take func() (chunk, bool), mu *sync.Mutex) {
	var p *workerProc
	defer func() {
		if p != nil {
			p.stop()
		}
	}()
	for {
		ch, ok := take()
		if !ok {
			return
		}
		for ch.lo < ch.hi {
			if p == nil {
				var err error
				p, err = startWorker(a.Check, a.Tier, w)
				if err != nil {
					mu.Lock()
					a.Notes = append(a.Notes, "cannot start worker: "+err.Error())
					a.Exhaustive = false
					mu.Unlock()
					return
				}
			}
			fmt.Fprintf(p.in, "%d %d %d\n", ch.space, ch.lo, ch.hi)
			type rd struct {
				line []byte
				err  error
			}
			done := make(chan rd, 1)
			go func() {
				l, err := p.out.ReadBytes('\n')
				done <- rd{l, err}
			}()
			var res rd
			hang := false
			lastIdx, lastN := p.progress()
			lastChange := time.Now()
		waitLoop:
			for {
				select {
				case res = <-done:
					break waitLoop
				case <-time.After(2 * time.Second):
					idx, n := p.progress()
					if idx != lastIdx || n != lastN {
						lastIdx, lastN, lastChange = idx, n, time.Now()
					} else if time.Since(lastChange) > HangLimit {
						hang = true
						p.cmd.Process.Kill()
						res = <-done
						break waitLoop
					}
				}
			}
			if res.err == nil {
				var r chunkResult
				if err := json.Unmarshal(res.line, &r); err != nil {
					mu.Lock()
					a.Notes = append(a.Notes, "bad worker reply: "+err.Error())
					a.Exhaustive = false
					mu.Unlock()
				} else {
					mu.Lock()
					a.add(&r)
					mu.Unlock()
				}
				break
			}
			// worker died: the case in the progress file is the culprit
			idx, _ := p.progress()
			stderr := p.errBuf.String()
			p.cmd.Wait()
			// A worker that received SIGKILL which this process did not send, and that left no Go
			// fatal error or panic behind, was killed from outside (the kernel's OOM killer while
			// other jobs share the machine): that says nothing about the case. The case is run
			// again in a fresh worker; only a third death in a row is reported.
			external := false
			if ps := p.cmd.ProcessState; !hang && ps != nil {
				ws, _ := ps.Sys().(syscall.WaitStatus)
				external = ws.Signaled() && ws.Signal() == syscall.SIGKILL && !strings.Contains(stderr, "fatal error:") && !strings.Contains(stderr, "panic:")
			}
			os.Remove(p.progF)
			p = nil
			if idx < ch.lo || idx >= ch.hi {
				idx = ch.lo
			}
			if external {
				rk := [2]int64{int64(ch.space), idx}
				mu.Lock()
				if a.extKills == nil {
					a.extKills = map[[2]int64]int{}
				}
				a.extKills[rk]++
				n := a.extKills[rk]
				if n <= 2 {
					a.Notes = append(a.Notes, fmt.Sprintf("worker %d killed from outside (SIGKILL, no Go crash output) at space %s index %d; case re-run", w, plan.Spaces[ch.space].Name, idx))
				}
				mu.Unlock()
				if n <= 2 {
					ch.lo = idx
					time.Sleep(3 * time.Second)
					continue
				}
			}
			sp := &plan.Spaces[ch.space]
			class := "crash"
			if hang {
				class = "hang"
			}
			v := &Violation{Property: a.Check, Tier: a.Tier, Space: sp.Name, Index: idx, Oracle: "terminates", Class: class,
				Witness: crashSite(stderr), Detail: map[string]any{"stderr": headTail(stderr, 2500)}, Count: 1}
			if sp.Desc != nil {
				v.Case = sp.Desc(idx)
			}
			mu.Lock()
			a.Crashes++
			a.AddViolation(v)
			if hang {
				a.hangs++
			}
			tooMany := a.Crashes > 200 || a.hangs >= 6
			if tooMany && !a.abort {
				a.abort = true
				a.Notes = append(a.Notes, "more than 200 worker crashes (or 6 hangs); exploration stopped early")
				a.Exhaustive = false
			}
			mu.Unlock()
			if tooMany {
				break
			}
			ch.lo = idx + 1
		}
	}
}

func headTail(s string, n int) string {
	if len(s) <= 2*n {
		return s
	}
	return s[:n] + "\n...\n" + s[len(s)-n:]
}

// crashSite summarises a fatal error: message plus the first /repo frame.
func crashSite(stderr string) string {
	msg := "killed"
	lines := strings.Split(stderr, "\n")
	for _, l := range lines {
		if strings.HasPrefix(l, "fatal error:") || strings.HasPrefix(l, "runtime: goroutine stack exceeds") || strings.HasPrefix(l, "panic:") {
			msg = l
			if strings.HasPrefix(l, "fatal error:") {
				break
			}
		}
	}
	site := ""
	for _, l := range lines {
		l = strings.TrimSpace(l)
		if strings.HasPrefix(l, RepoDir()+"/") {
			if j := strings.Index(l, " "); j > 0 {
				l = l[:j]
			}
			site = l
			break
		}
	}
	return msg + " @ " + site
}

// ReplayCase re-runs exactly one case in-process and prints what it found.
func ReplayCase(path string) int {
	b, err := os.ReadFile(path)
	if err != nil {
		fmt.Fprintln(os.Stderr, err)
		return 2
	}
	var v Violation
	if err := json.Unmarshal(b, &v); err != nil {
		fmt.Fprintln(os.Stderr, err)
		return 2
	}
	ck := Lookup(v.Property)
	if ck == nil {
		fmt.Fprintln(os.Stderr, "unknown check", v.Property)
		return 2
	}
	plan := ck.Build(v.Tier)
	for si := range plan.Spaces {
		sp := &plan.Spaces[si]
		if sp.Name != v.Space {
			continue
		}
		c := newCtx(v.Property, v.Tier)
		c.Replay = true
		fmt.Printf("replaying %s %s space=%s index=%d\n", v.Property, v.Tier, v.Space, v.Index)
		if sp.Desc != nil {
			fmt.Printf("case: %s\n", JSON(sp.Desc(v.Index)))
		}
		c.runCase(sp, v.Index)
		if len(c.viol) > 0 {
			fmt.Printf("REPRODUCED %d violation(s)\n", len(c.viol))
			return 1
		}
		fmt.Println("no violation on this tree")
		return 0
	}
	fmt.Fprintln(os.Stderr, "space not found:", v.Space)
	return 2
}
