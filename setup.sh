#!/bin/bash
# Build the harness once (warms the Go build cache) from files on disk only.
set -e
cd "$(dirname "$0")"
./check build-all
echo "setup ok: $(${VERIF_WORK:-$(pwd)/.work}/bin/vmc-instr list | tr '\n' ' ')"
