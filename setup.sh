#!/bin/bash
# Build the harness once (warms the Go build cache) from files on disk only.
set -e
cd "$(dirname "$0")"
export GOFLAGS=-mod=mod GOPROXY=off
unset GOSUMDB GOTOOLCHAIN 2>/dev/null || true
WORK=${VERIF_WORK:-$(pwd)/.work}
mkdir -p "$WORK/bin" "$WORK/fs" evidence
cp /repo/go.sum engine/go.sum
./tools/gencopies.sh
(cd engine && go build -o "$WORK/bin/vmc" ./cmd/vmc)
(cd /repo && go build -o "$WORK/bin/" ./cmd/...)
(cd engine && go build -o "$WORK/bin/vinstr" ./cmd/vinstr)
"$WORK/bin/vinstr" /repo "$WORK/instr"
(cd engine && go build -tags instr -overlay "$WORK/instr/overlay.json" -o "$WORK/bin/vmc-instr" ./cmd/vmc)
(cd engine && go build -race -tags instr -overlay "$WORK/instr/overlay.json" -o "$WORK/bin/vmc-race" ./cmd/vmc)
echo "setup ok: $($WORK/bin/vmc-instr list | tr '\n' ' ')"
