#!/bin/bash
# Runs checks against one seeded change on a PRIVATE copy of the repository (a scratch
# git worktree under /tmp; /repo itself is not touched): applies seeded/<id>/patch.diff,
# runs the given checks (default: the property named in meta.json) in the given tier,
# prints one line per check and removes the copy.
# usage: tools/run_seeded.sh <id> [tier] [check...]
cd "$(dirname "$0")/.."
VERIF=$(pwd)
id=$1; tier=${2:-quick}; shift; shift
dir=$VERIF/seeded/$id
[ -f "$dir/patch.diff" ] || { echo "no $dir/patch.diff"; exit 2; }
checks=("$@")
if [ ${#checks[@]} = 0 ]; then
  checks=($(python3 -c "import json;print(json.load(open('$dir/meta.json'))['property'])"))
fi
wt=/tmp/seedrun-$id-$$
git -C /repo worktree add -q --detach "$wt" HEAD || exit 2
trap 'git -C /repo worktree remove --force "$wt" >/dev/null 2>&1; rm -rf "$VERIF/.work/seedrun-$id-$$"' EXIT
git -C "$wt" apply "$dir/patch.diff" || { echo "$id: patch does not apply"; exit 2; }
export VERIF_REPO=$wt VERIF_WORK=$VERIF/.work/seedrun-$id-$$ VERIF_OUT_DIR=$VERIF/.work/seedrun-$id-$$/out
mkdir -p "$VERIF_OUT_DIR"
# run from a snapshot of the harness so that edits made to /verif meanwhile do not disturb this run
snap=$VERIF_WORK/snap
mkdir -p "$snap"
cp -r "$VERIF/check" "$VERIF/tools" "$VERIF/engine" "$VERIF/py" "$VERIF/known_findings.json" "$snap/"
cd "$snap"
for chk in "${checks[@]}"; do
  s=$(date +%s)
  out=$(VMC_NO_CONFIRM=1 ./check "$chk" "$tier" 2>&1)
  rc=$?
  [ -n "$SEED_LOG" ] && echo "$out" > "$SEED_LOG.$id.$chk.log"
  n=$(echo "$out" | grep -c '^VIOLATION')
  first=$(echo "$out" | grep -A1 '^VIOLATION' | grep oracle | head -1 | cut -c1-260)
  echo "$id: $chk $tier exit=$rc violations=$n $(( $(date +%s) - s ))s $first"
  [ $rc -ge 2 ] && echo "$out" | tail -5
done
