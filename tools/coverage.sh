#!/bin/bash
# Vacuity report: builds the harness with statement coverage of package bkl (and the tool
# copies), runs the quick tier of the given checks (default: all non-instrumented ones) with
# 4 workers each, and lists the statements of /repo that no check executed.
# Reporting only - never a verdict.   usage: tools/coverage.sh [Cxx...]   -> detection/coverage.txt
cd "$(dirname "$0")/.."
VERIF=$(pwd)
export GOFLAGS=-mod=mod GOPROXY=off
W=$VERIF/.work/cover
rm -rf $W; mkdir -p $W/bin $W/data $W/mod $W/out
./tools/gencopies.sh $W/toolcopy >/dev/null
cp /repo/go.sum engine/go.sum
# a workspace makes package bkl part of the main modules, which is what -cover instruments
printf 'go 1.24.0\n\nuse (\n\t%s/engine\n\t/repo\n)\n' "$VERIF" > $W/go.work
(cd engine && GOFLAGS= GOWORK=$W/go.work go build -overlay $W/toolcopy/overlay.json -cover -coverpkg=github.com/gopatchy/bkl/...,verif/cmd/vmc -o $W/bin/vmc ./cmd/vmc) || exit 3
(cd engine && GOFLAGS= GOWORK=$W/go.work go build -o $W/bin/standin ./cmd/standin)
(cd /repo && go build -cover -coverpkg=github.com/gopatchy/bkl/... -o $W/bin/ ./cmd/...) || exit 3
checks=("$@"); [ ${#checks[@]} = 0 ] && checks=(C01 C02 C03 C04 C05 C06 C07 C10 C11 C12 C13 C14 C15 C16 C17 C18 C19 C20)
for c in "${checks[@]}"; do
  GOCOVERDIR=$W/data VERIF_WORK=$W VERIF_OUT_DIR=$W/out VERIF_WORKERS=8 VMC_NO_CONFIRM=1 $W/bin/vmc run $c quick > $W/out/$c.log 2>&1
  echo "$c rc=$? $(grep -c ^VIOLATION $W/out/$c.log) viol"
done
GOFLAGS= go tool covdata textfmt -i=$W/data -o $W/cover.txt
python3 - $W/cover.txt > detection/coverage.txt <<'PY'
import sys,collections
cov=collections.defaultdict(int)
for l in open(sys.argv[1]):
    if l.startswith('mode:'): continue
    loc,n,cnt=l.rsplit(' ',2)
    cov[loc]=max(cov[loc],int(cnt))
files=collections.defaultdict(list)
for loc,c in cov.items():
    f,rng=loc.split(':')
    if c==0: files[f].append(rng)
tot=len(cov); unc=sum(1 for c in cov.values() if c==0)
print(f"statement blocks: {tot}, never executed by any quick check: {unc}")
for f in sorted(files):
    print(f)
    for r in sorted(files[f], key=lambda r:(int(r.split('.')[0]),r)):
        print("   ",r)
PY
head -3 detection/coverage.txt
