#!/usr/bin/env python3
"""Regenerates /verif/MANIFEST.json from the table below (kept valid at all times)."""
import json, os, sys
here = os.path.dirname(os.path.dirname(os.path.abspath(__file__)))
props = [json.loads(l) for l in open(os.path.join(here, 'properties.jsonl'))]

# id -> (engine, technique, level text, level note, design ref)
CHECKS = {
 'C01': ('E1+E2+E3', 'bounded-exhaustive enumeration of parent/child tree pairs, list-edit programs and layer chains, each replayed on the real Parser in lock-step with the reference merge semantics',
         'All (parent<=4 nodes, child<=3 (thorough 4) nodes) pairs over the full override-directive alphabet, all list parents of <=3 entries x child lists of <=2 directive entries (99 entry forms), all chains of 2-3 further layers, and JSON-file replays. After every layer Documents() and OutputDocuments() must equal the model; a model Reject must surface as an error. Exhaustive within the bounds.',
         'Trusted: ref.Merge/ref.Match/ref.Stream/ref.Final (DESIGN Appendix A), about 400 lines. Unspecified zones (DESIGN 3.1) are executed but not judged.', '4/C01'),
 'C02': ('E3+E2', 'explicit enumeration of all layer histories over multi-document streams on the real Parser, in lock-step with the stream model, plus a differential independence oracle and pointer-sharing state keys',
         'All base streams of 1-3 documents x all sequences of 1-2 (thorough 3) layers of 1-2 documents over 7 selector forms; thorough adds 3-document layers and 4-document bases; a sharing space of 252 bases x 28 container-carrying edits to depth 3; file-backed replays in YAML and JSON. Targets, order, untouched documents and per-document independence are checked after every layer.',
         'Trusted: ref.Stream targeting model; independence oracle is the implementation itself on a single-document parser.', '4/C02'),
 'C06': ('E1+E2', 'bounded-exhaustive enumeration of all token trees up to N nodes, each replayed against the real Parser and compared with the reference semantics (identity / unescape)',
         'Every tree with <=3 nodes over the full 26-token $-alphabet (keys and values) and every plain tree with <=4 (thorough 5) nodes is evaluated alone, doubled, and doubled-as-child over 2-4 bases; the result must equal the generating tree. Exhaustive within that bound, no sampling.',
         'Trusted: the 60-line unescape/null-drop model and refMerge for the layered expectation; strings outside the token alphabet and trees beyond the node bound are not covered.', '4/C06'),
 'C07': ('E1', 'bounded-exhaustive injection of every marker form at every position of every base tree, evaluated in four contexts on the real Parser, with an output-scanning invariant',
         'Every single injection of 15 string markers and 100 directive-map markers into every base tree with <=4 (thorough 5) nodes, each evaluated plain, under $output:false, inside $encode:json and as a lower layer; every $required lower layer x every subset of overrides. Invariant: no $required / $lowercase token in any successful output (or in encoded text).',
         'Invariant oracle needs no model; definite accept/reject expectations only where the statement fixes them.', '4/C07'),
 'C08': ('E1+E4+E6', 'bounded-exhaustive input enumeration executed under a deterministic step budget on an overlay-instrumented build, with crash-contained worker subprocesses and a CLI exit-contract driver',
         'All byte strings of length <=5 (thorough 6) over a 14-byte alphabet as .json and .toml files; every single (thorough: double) directive injection into every base tree in 5 layerings and 3 file formats; all 125k three-key reference graphs; all 512x3 $parent digraphs; all 255x4 symlink layouts of four layer files in two directories; 39 hand-written YAML texts; CLI exit contract for all four tools on a subset. Oracle: returns output xor error, no panic, step budget not exceeded, worker survives, definite cycles are errors.',
         'Step budget counts instrumented function/loop entries of package bkl only; dependencies are covered by the worker watchdog. Cycle => error is asserted only for pure whole-value reference cycles and $parent cycles.', '4/C08'),
 'C09': ('E4', 'stateless choice-point DFS over all map-iteration orders within a deviation bound and over all interleavings of shared-variable accesses within a pre-emption bound, on an overlay-instrumented build; separate free-running -race pass',
         'For every input (hand-picked order-sensitive documents plus generated trees and merge pairs) all executions with <=2 (thorough 3) non-default picks at every map range site vinstr finds in the working tree, and a second pass that also controls every maps.Keys/Values/All call site (so a comparator that is not a total order shows); all 2-thread (<=2 pre-emptions) and 3-thread (<=1) interleavings at accesses to mutable package-level variables, and every hand-picked input alone under the same scheduler - goroutines the library itself starts (go statements are rewritten to scheduler threads, sync.Mutex/RWMutex/WaitGroup/Once are routed to a scheduler-aware stand-in package) become threads whose every completion order is explored; 16-goroutine free-running pass under the race detector; two fresh CLI processes per input. Every execution must produce the observation of the default execution.',
         'Map iteration inside dependencies is not controlled. The scheduler is sequentially consistent and interleaves at package-level variable accesses, go statements and Lock/Wait/Do (no mutable globals and no go statements on the current tree, which the evidence reports); channel operations, sync.Cond and atomics are not modelled: vinstr lists such sites and an exploration that blocks in one is abandoned and reported as not applicable, not judged; the -race pass guards the rest.', '4/C09'),
 'C11': ('E1+E2', 'bounded-exhaustive enumeration of all marker placements on all small trees, compared with an independent selection/hiding model',
         'Every tree with <=6 (thorough 7) nodes over keys {a,b,$output} and scalars {1,true,false} and every 2-document stream of trees <=3 nodes; outputs must equal ref.Outputs (multiset where a selection contains another selection), and no $output marker may survive.',
         'Trusted: ref.Outputs (select/hide/final), 150 lines.', '4/C11'),
 'C03': ('E5+E2', 'bounded-exhaustive enumeration of directory layouts within k deviations of baseline chains, each run through the real bkl CLI and compared with a model of layer resolution plus the stream/merge model',
         'Five baseline layouts (filename chains of depth 1-4 with sibling layers) and every layout within 1 (quick; 2 on the two smallest baselines) or 2 (thorough, 155k layouts) deviations: extension changes over 6 formats, removed layers, 16 $parent values in document 0 or 1, false+string, filename links re-expressed by $parent, relative/chained/dotted symlinks, -P, virtual/unsupported extensions, extra inputs. Each layer appends its name to an order list, so the applied order is visible in the output.',
         'Trusted: refResolve (150 lines) + ref.Stream/ref.Merge. Not judged: $parent values of other types, absolute symlinks (os.Root refuses them), the same file loaded twice under one child (identical document ids).', '4/C03'),
 'C04': ('E1', 'exhaustive enumeration of all format assignments for every logical layer set, differential against the all-JSON assignment',
         'About 400 (thorough 900) logical layer sets built around every comparison bkl makes (useless override, list $match/$delete/$value, document $match, $repeat counts, $encode of numbers) over 14 boundary numbers and 8 look-alike strings, each written under all 6^n assignments of six (format, style) spellings; status, type-exact Documents() and output bytes in three formats must equal the all-JSON run. YAML anchor/merge-key and TOML dotted-key/table templates are compared with their expanded JSON.',
         'Trusted: the harness emitters, cross-checked on every run against Python json / PyYAML with a YAML 1.2 core-schema resolver / tomllib.', '4/C04'),
 'C05': ('E1+E5', 'bounded-exhaustive enumeration of document streams over a look-alike alphabet in every output format, re-read by bkl and by independent parsers; exhaustive CLI flag matrix',
         'About 7k streams (64 look-alike strings at every position, 12 boundary numbers, empty containers, all trees <=3 nodes over a reduced alphabet, all 2-4 document sequences over an 8-document pool) x 6 formats: decode(encode(docs)) must equal docs for bkl\'s decoder, for a fresh Parser loading the bytes as a file, and for Python json/PyYAML(1.2)/tomllib. CLI matrix: 5 -f values x 7 -o extensions x 6 input extensions x 3 real formats: the bytes written must be the library output of the format the rule selects.',
         'Values compared numerically (2.0 may read back as 2). Strings contain no $.', '4/C05'),
 'C10': ('E1', 'bounded-exhaustive enumeration of (base tree, target, host position, reference form) with a differential as-if-inlined oracle on the real Parser',
         'For every map-rooted base tree up to 4 (thorough 5) nodes over keys {a, b, c.d}: every map-addressable node as target x every non-overlapping host (new key in every map, existing leaf/map/list) x 17 reference forms and 3 path spellings, chains of two references in both processing orders, hidden templates, dangling paths, and cross-document {$match,$path} / [pattern, path...] forms with 0/1/2 matching documents. eval(referencing) must equal eval(hand-inlined), error iff error.',
         'The inlined $merge value is computed with the real layering API on copies, so C10 does not depend on refMerge. Not judged: a path that runs through another reference host (the written document has no such subtree).', '4/C10'),
 'C12': ('E1', 'bounded-exhaustive enumeration of $repeat placements and counts, differential against the hand-expanded stream',
         'Every body tree up to 4 (thorough 5) nodes using $repeat / {$repeat} in values, interpolations and keys x counts 0..5 and 9 non-integer counts at document level (map and list roots), nested in lists and maps under and without an outer repeat, 1-3 named counts with every assignment 0..3, counts overridden by an upper layer. eval(D) must equal eval(hand expansion); a non-integer count must be an error.',
         'Trusted: the 150-line textual expander. Not judged: negative counts, $repeat: null, colliding map-level repeat keys.', '4/C12'),
 'C13': ('E1+E2', 'bounded-exhaustive enumeration of interpolation templates and environment values against a string-concatenation model',
         'Every template of k+1 literal segments (7 forms) and k references (10 forms incl. $env, unset, missing, $repeat) for k<=3 (thorough 4), as value and as key, under 18 environment values; whole-string $env in values, keys and list entries. Result must be the concatenation; missing references must fail.',
         'The worker owns its environment. Known finding: an environment value containing $$ is unescaped once more (listed in known_findings.json).', '4/C13'),
 'C14': ('E1+E2', 'bounded-exhaustive enumeration of values x transform stacks in three syntactic forms against independently computed encodings',
         '46 values (incl. integers at the 32/53/64-bit boundaries) x every stack of up to 3 of 29 transform spellings (valid, malformed arguments, unknown, non-string) in map form, list-marker form and $value form; decode(encode(v)) for 6 formats rendered through JSON and YAML. Reference built on crypto/sha256, encoding/base64, encoding/json, strings; yaml/toml text is judged by parsing it with yaml.v3 / go-toml called directly.',
         'Not judged: base64/sha256 of containers, join/prefix/tolist over nested containers, toml of non-maps, transforms applied to yaml/toml text.', '4/C14'),
 'C15': ('E1+E5', 'exhaustive enumeration of all ordered (base, target) pairs up to a node bound, round-tripped through the copied diff code in-process and through the real CLIs',
         'All 2M (thorough 130M: 11k^2) ordered pairs of map-rooted, null-free, $-free trees up to 4 (5) nodes over keys {a,b,l}, all pairs of lists of <=2 (3) entries with subset maps, duplicates and reorders; CLI bkld then bkl in format mixes. bkl(base + bkld(base,target)) must equal target; equal inputs must give an empty layer.',
         'In-process runs use cmd/bkld/diff.go copied from the working tree at build time.', '4/C15'),
 'C16': ('E1+E5', 'exhaustive enumeration of all input pairs/triples/quadruples up to a node bound with structural commonality/maximality oracles and a bkld migrate round trip',
         'All ordered pairs up to 4 (thorough 5) nodes, triples up to 2 (3) nodes, quadruples up to 2 nodes, list pairs with repeated and subset entries; result keys must be exactly the keys present in all inputs, list entries the multiset minimum, differing values $required, self-intersection the identity; every input must be reproduced by base + bkld(base, input); CLI migrate workflow in format mixes.',
         'In-process runs use cmd/bkli/intersect.go and cmd/bkld/diff.go copied from the working tree at build time; list order is not judged.', '4/C16'),
 'C17': ('E1+E5', 'exhaustive enumeration of 1-3 layer chains with $required at every subset of positions, structural oracle plus agreement with bkl',
         'Every chain of 1-3 map-rooted layers over keys {a,b}, scalars {1,x,$required} up to 4 (thorough 5) nodes: marker paths of bklr output equal those of the merged document, nothing else is present, empty iff none, idempotent, and bkl refuses with a required-field error exactly when the output is non-empty; CLI with filename inheritance in format mixes.',
         'In-process runs use cmd/bklr/required.go copied from the working tree at build time.', '4/C17'),
 'C18': ('E5', 'exhaustive product of root spellings x entry spellings x escape vectors x decoy states through the real CLI, with an inotify monitor on the files that must never be read',
         '5 root spellings x 4 entry spellings x 18 escape vectors x {escape to an unrelated directory, escape to a sibling whose name extends the root name, in-root twin} x 4 decoy states (every escaping case also with the decoys in json, toml and jsonl), plus nested library SetRoot calls, a read before SetRoot, and a process that changes its working directory between two evaluations (4 root/path spellings, own subprocess): no IN_OPEN/IN_ACCESS on any file outside the root, status and stdout independent of the decoy, escapes fail, twins succeed with the expected output; -r / runs are the control proving each vector reaches the decoy when unconfined (and that the monitor sees it).',
         'stat/readlink/directory listing do not count as reading contents.', '4/C18'),
 'C20': ('E5', 'exhaustive enumeration of argument vectors over an alphabet of argument kinds, observed by a recording stand-in program',
         'Every argument vector of length 0-2 (thorough 3) over 28 argument kinds and of length 3 (thorough 4) over the 18 core kinds (incl. .yml-backed and .json-backed layers, an empty argument, an argument with blanks/unicode, --, four kinds of failing evaluation, two files with the same base name in different directories, names with glob metacharacters, a symlinked layer) and flag vectors of length 5-8 with one (two) non-flag arguments at every position, invoked as recb (symlink to bklb) and kubectl-bkl: same argument count, non-file arguments byte-identical in place, file arguments replaced by a file of the named format holding the evaluated layers, wrapped program not run when evaluation fails.',
         'File content is parsed with encoding/json, yaml.v3, go-toml called directly and compared with the known evaluated layers.', '4/C20'),
 'C19': ('E3', 'explicit-state breadth-first search over API histories with a reflective whole-Parser state key, plus stateless enumeration of all histories without de-duplication against a never-observed reference parser',
         'Operation alphabet {4 template merges, MergeFileLayers, Documents, Output(json), Output(yaml), OutputDocuments, OutputToWriter}; all histories of length <=5 (thorough 6) without de-duplication; BFS to length 8 / 3 merges de-duplicated on a reflective dump of the Parser (unexported fields, pointer sharing) for 11 (thorough: 5 035: every 4-subset of the 19 general templates and each purpose-built group completed by every choice of general ones) template sets; one fresh process per (format, document) whose first, second, second-parser and post-$encode outputs must be the same bytes as in the long-running worker. Invariants: observations are self-loops, observations are a function of state, merges after observations behave as if never observed, returned bytes are stable, Documents() equals the merged unevaluated model tree.',
         'The never-observed reference is the same implementation on a fresh parser; package-level state is covered by the stateless enumeration and the fresh-process space rather than the state key.', '4/C19'),
}
NOT_YET = 'check not built yet in this session (work in progress; see DESIGN.md section 4 for the planned design)'

checks, na = [], []
for p in props:
    pid = p['id']
    if pid in CHECKS:
        eng, tech, text, note, ref = CHECKS[pid]
        checks.append({
            'property_id': pid,
            'quick_cmd': f'./check {pid} quick',
            'thorough_cmd': f'./check {pid} thorough',
            'evidence_file': f'/verif/evidence/{pid}.json',
            'replay_cmd_template': './check replay {path}',
            'engine': eng,
            'level_claimed': {'category': 'model_checking', 'text': text, 'design_ref': f'DESIGN.md section {ref}'},
            'level_note': note,
            'technique': tech,
        })
    else:
        na.append({'property_id': pid, 'reason': NOT_YET})

m = {
 'version': 1,
 'setup_cmd': './setup.sh',
 'hooks': {
   'guard': 'verif',
   'enable': 'no hooks are committed to /repo: the build tag "verif" is reserved and unused. Instrumentation (map-range chooser, step counter) is generated from the working tree by /verif/engine/cmd/vinstr and applied with go build -overlay at check time.',
   'baseline_off_cmd': 'cd /repo && GOFLAGS=-mod=mod GOPROXY=off go test -vet=off -count=1 -timeout 25m ./...',
   'source_commits': [],
   'add_only': True,
 },
 'engines': [
   {'name': 'vmc', 'path': '/verif/engine', 'serves_properties': sorted(CHECKS), 'kind_free_text': 'hand-written bounded-exhaustive explorer: indexable case spaces sharded to 16 crash-contained worker subprocesses, reference semantics run in lock-step, explicit-state search over API histories, choice-point DFS on an overlay-instrumented build'},
 ],
 'checks': checks,
 'not_applicable': na,
 'notes': 'All checks rebuild the harness (which links /repo through a replace directive) from /repo\'s working tree on every invocation. VERIF_SEED only rotates the order in which shards are handed to workers.',
}
json.dump(m, open(os.path.join(here, 'MANIFEST.json'), 'w'), indent=1)
print('MANIFEST.json:', len(checks), 'checks,', len(na), 'not_applicable')
