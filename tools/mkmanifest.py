#!/usr/bin/env python3
"""Regenerates /verif/MANIFEST.json from the table below (kept valid at all times)."""
import json, os, sys
here = os.path.dirname(os.path.dirname(os.path.abspath(__file__)))
props = [json.loads(l) for l in open(os.path.join(here, 'properties.jsonl'))]

# id -> (engine, technique, level text, level note, design ref)
CHECKS = {
 'C01': ('E1+E2+E3', 'bounded-exhaustive enumeration of parent/child tree pairs, list-edit programs and layer chains, each replayed on the real Parser in lock-step with the reference merge semantics',
         'All (parent<=4 nodes, child<=3 (thorough 4) nodes) pairs over the full override-directive alphabet, all list parents of <=3 entries x child lists of <=2 directive entries (99 entry forms), all chains of 2-3 further layers, and JSON-file replays. After every layer Documents() and OutputDocuments() must equal the model; a model Reject must surface as an error. Exhaustive within the bounds.',
         'Trusted: ref.Merge/ref.Match/ref.Stream/ref.Final (DESIGN Appendix A), about 400 lines. Unspecified zones (DESIGN 3.1) are executed but not judged.', '4/C01'),
 'C02': ('E3+E2', 'explicit enumeration of all layer histories over multi-document streams on the real Parser, in lock-step with the stream model, plus a differential independence oracle and pointer-sharing state keys',
         'All base streams of 1-3 documents x all sequences of 1-2 (thorough 3) layers of 1-2 documents over 7 selector forms; thorough adds 3-document layers and 4-document bases; a sharing space of 252 bases x 28 container-carrying edits to depth 3; file-backed replays in YAML and JSON. Targets, order, untouched documents and per-document independence are checked after every layer.',
         'Trusted: ref.Stream targeting model; independence oracle is the implementation itself on a single-document parser.', '4/C02'),
 'C06': ('E1+E2', 'bounded-exhaustive enumeration of all token trees up to N nodes, each replayed against the real Parser and compared with the reference semantics (identity / unescape)',
         'Every tree with <=3 nodes over the full 26-token $-alphabet (keys and values) and every plain tree with <=4 (thorough 5) nodes is evaluated alone, doubled, and doubled-as-child over 2-4 bases; the result must equal the generating tree. Exhaustive within that bound, no sampling.',
         'Trusted: the 60-line unescape/null-drop model and refMerge for the layered expectation; strings outside the token alphabet and trees beyond the node bound are not covered.', '4/C06'),
 'C07': ('E1', 'bounded-exhaustive injection of every marker form at every position of every base tree, evaluated in four contexts on the real Parser, with an output-scanning invariant',
         'Every single injection of 15 string markers and 100 directive-map markers into every base tree with <=4 (thorough 5) nodes, each evaluated plain, under $output:false, inside $encode:json and as a lower layer; every $required lower layer x every subset of overrides. Invariant: no $required / $lowercase token in any successful output (or in encoded text).',
         'Invariant oracle needs no model; definite accept/reject expectations only where the statement fixes them.', '4/C07'),
 'C08': ('E1+E4+E6', 'bounded-exhaustive input enumeration executed under a deterministic step budget on an overlay-instrumented build, with crash-contained worker subprocesses and a CLI exit-contract driver',
         'All byte strings of length <=5 (thorough 6) over a 14-byte alphabet as .json and .toml files; every single (thorough: double) directive injection into every base tree in 5 layerings and 3 file formats; all 125k three-key reference graphs; all 512x3 $parent digraphs; 39 hand-written YAML texts; CLI exit contract for all four tools on a subset. Oracle: returns output xor error, no panic, step budget not exceeded, worker survives, definite cycles are errors.',
         'Step budget counts instrumented function/loop entries of package bkl only; dependencies are covered by the worker watchdog. Cycle => error is asserted only for pure whole-value reference cycles and $parent cycles.', '4/C08'),
 'C09': ('E4', 'stateless choice-point DFS over all map-iteration orders within a deviation bound and over all interleavings of shared-variable accesses within a pre-emption bound, on an overlay-instrumented build; separate free-running -race pass',
         'For every input (hand-picked order-sensitive documents plus generated trees and merge pairs) all executions with <=2 (thorough 3) non-default picks at every map range site vinstr finds in the working tree; all 2-thread (<=2 pre-emptions) and 3-thread (<=1) interleavings at accesses to mutable package-level variables; 16-goroutine free-running pass under the race detector; two fresh CLI processes per input. Every execution must produce the observation of the default execution.',
         'Map iteration inside dependencies is not controlled. The scheduler is sequentially consistent and only interleaves at package-level variable accesses (none mutable on the current tree); the -race pass guards that assumption.', '4/C09'),
 'C11': ('E1+E2', 'bounded-exhaustive enumeration of all marker placements on all small trees, compared with an independent selection/hiding model',
         'Every tree with <=6 (thorough 7) nodes over keys {a,b,$output} and scalars {1,true,false} and every 2-document stream of trees <=3 nodes; outputs must equal ref.Outputs (multiset where a selection contains another selection), and no $output marker may survive.',
         'Trusted: ref.Outputs (select/hide/final), 150 lines.', '4/C11'),
 'C19': ('E3', 'explicit-state breadth-first search over API histories with a reflective whole-Parser state key, plus stateless enumeration of all histories without de-duplication against a never-observed reference parser',
         'Operation alphabet {4 template merges, MergeFileLayers, Documents, Output(json), Output(yaml), OutputDocuments, OutputToWriter}; all histories of length <=5 (thorough 6) without de-duplication; BFS to length 8 / 3 merges de-duplicated on a reflective dump of the Parser (unexported fields, pointer sharing) for 4 (thorough all 495) template sets. Invariants: observations are self-loops, observations are a function of state, merges after observations behave as if never observed, returned bytes are stable, Documents() equals the merged unevaluated model tree.',
         'The never-observed reference is the same implementation on a fresh parser; package-level state is covered by the stateless enumeration rather than the state key.', '4/C19'),
}
NOT_YET = 'check not built yet in this session (work in progress; see DESIGN.md section 4 for the planned design)'

checks, na = [], []
for p in props:
    pid = p['id']
    if pid in CHECKS:
        eng, tech, text, note, ref = CHECKS[pid]
        checks.append({
            'property_id': pid,
            'quick_cmd': f'./check {pid} quick',
            'thorough_cmd': f'./check {pid} thorough',
            'evidence_file': f'/verif/evidence/{pid}.json',
            'replay_cmd_template': './check replay {path}',
            'engine': eng,
            'level_claimed': {'category': 'model_checking', 'text': text, 'design_ref': f'DESIGN.md section {ref}'},
            'level_note': note,
            'technique': tech,
        })
    else:
        na.append({'property_id': pid, 'reason': NOT_YET})

m = {
 'version': 1,
 'setup_cmd': './setup.sh',
 'hooks': {
   'guard': 'verif',
   'enable': 'no hooks are committed to /repo: the build tag "verif" is reserved and unused. Instrumentation (map-range chooser, step counter) is generated from the working tree by /verif/engine/cmd/vinstr and applied with go build -overlay at check time.',
   'baseline_off_cmd': 'cd /repo && GOFLAGS=-mod=mod GOPROXY=off go test -vet=off -count=1 -timeout 25m ./...',
   'source_commits': [],
   'add_only': True,
 },
 'engines': [
   {'name': 'vmc', 'path': '/verif/engine', 'serves_properties': sorted(CHECKS), 'kind_free_text': 'hand-written bounded-exhaustive explorer: indexable case spaces sharded to 16 crash-contained worker subprocesses, reference semantics run in lock-step, explicit-state search over API histories, choice-point DFS on an overlay-instrumented build'},
 ],
 'checks': checks,
 'not_applicable': na,
 'notes': 'All checks rebuild the harness (which links /repo through a replace directive) from /repo\'s working tree on every invocation. VERIF_SEED only rotates the order in which shards are handed to workers.',
}
json.dump(m, open(os.path.join(here, 'MANIFEST.json'), 'w'), indent=1)
print('MANIFEST.json:', len(checks), 'checks,', len(na), 'not_applicable')
