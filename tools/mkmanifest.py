#!/usr/bin/env python3
"""Regenerates /verif/MANIFEST.json from the table below (kept valid at all times)."""
import json, os, sys
here = os.path.dirname(os.path.dirname(os.path.abspath(__file__)))
props = [json.loads(l) for l in open(os.path.join(here, 'properties.jsonl'))]

# id -> (engine, technique, level text, level note, design ref)
CHECKS = {
 'C06': ('E1+E2', 'bounded-exhaustive enumeration of all token trees up to N nodes, each replayed against the real Parser and compared with the reference semantics (identity / unescape)',
         'Every tree with <=3 nodes over the full 26-token $-alphabet (keys and values) and every plain tree with <=4 (thorough 5) nodes is evaluated alone, doubled, and doubled-as-child over 2-4 bases; the result must equal the generating tree. Exhaustive within that bound, no sampling.',
         'Trusted: the 60-line unescape/null-drop model and refMerge for the layered expectation; strings outside the token alphabet and trees beyond the node bound are not covered.', '4/C06'),
}
NOT_YET = 'check not built yet in this session (work in progress; see DESIGN.md section 4 for the planned design)'

checks, na = [], []
for p in props:
    pid = p['id']
    if pid in CHECKS:
        eng, tech, text, note, ref = CHECKS[pid]
        checks.append({
            'property_id': pid,
            'quick_cmd': f'./check {pid} quick',
            'thorough_cmd': f'./check {pid} thorough',
            'evidence_file': f'/verif/evidence/{pid}.json',
            'replay_cmd_template': './check replay {path}',
            'engine': eng,
            'level_claimed': {'category': 'model_checking', 'text': text, 'design_ref': f'DESIGN.md section {ref}'},
            'level_note': note,
            'technique': tech,
        })
    else:
        na.append({'property_id': pid, 'reason': NOT_YET})

m = {
 'version': 1,
 'setup_cmd': './setup.sh',
 'hooks': {
   'guard': 'verif',
   'enable': 'no hooks are committed to /repo: the build tag "verif" is reserved and unused. Instrumentation (map-range chooser, step counter) is generated from the working tree by /verif/engine/cmd/vinstr and applied with go build -overlay at check time.',
   'baseline_off_cmd': 'cd /repo && GOFLAGS=-mod=mod GOPROXY=off go test -vet=off -count=1 -timeout 25m ./...',
   'source_commits': [],
   'add_only': True,
 },
 'engines': [
   {'name': 'vmc', 'path': '/verif/engine', 'serves_properties': sorted(CHECKS), 'kind_free_text': 'hand-written bounded-exhaustive explorer: indexable case spaces sharded to 16 crash-contained worker subprocesses, reference semantics run in lock-step, explicit-state search over API histories, choice-point DFS on an overlay-instrumented build'},
 ],
 'checks': checks,
 'not_applicable': na,
 'notes': 'All checks rebuild the harness (which links /repo through a replace directive) from /repo\'s working tree on every invocation. VERIF_SEED only rotates the order in which shards are handed to workers.',
}
json.dump(m, open(os.path.join(here, 'MANIFEST.json'), 'w'), indent=1)
print('MANIFEST.json:', len(checks), 'checks,', len(na), 'not_applicable')
