#!/bin/bash
# For every "fix:" commit in /repo: undo it on a PRIVATE copy of the repository (scratch git
# worktree under /tmp), run the named checks (quick) and record whether they report a
# VIOLATION. /repo itself is not touched.  usage: tools/reverse_fix_matrix.sh > detection/reverse_fixes.txt
cd "$(dirname "$0")/.."
VERIF=$(pwd)
run() { # <label> <checks...> -- <commit[:path]...> (newest first)
  label=$1; shift
  checks=()
  while [ "$1" != "--" ]; do checks+=("$1"); shift; done
  shift
  wt=/tmp/revfix-$$-$RANDOM
  git -C /repo worktree add -q --detach "$wt" HEAD || return
  ok=1
  for c in "$@"; do
    commit=${c%%:*}; path=""
    [ "$c" != "$commit" ] && path=${c#*:}
    git -C /repo show "$commit" -- $path | git -C "$wt" apply -R 2>/dev/null || { ok=0; break; }
  done
  if [ $ok = 1 ]; then
    export VERIF_REPO=$wt VERIF_WORK=$VERIF/.work/revfix-$$ VERIF_OUT_DIR=$VERIF/.work/revfix-$$/out
    mkdir -p "$VERIF_OUT_DIR"
    for chk in "${checks[@]}"; do
      s=$(date +%s)
      out=$(VMC_NO_CONFIRM=1 ./check "$chk" quick 2>&1); rc=$?
      n=$(echo "$out" | grep -c '^VIOLATION')
      first=$(echo "$out" | grep -A1 '^VIOLATION' | grep oracle | head -1 | cut -c1-200)
      echo "$label: $chk exit=$rc violations=$n $(( $(date +%s) - s ))s $first"
    done
    rm -rf "$VERIF_WORK"
  else
    echo "$label: reverse patch does not apply"
  fi
  git -C /repo worktree remove --force "$wt" >/dev/null 2>&1
}
run "012c24f patch clone in mergeDocs/mergeListMatch (D1)" C01 C02 -- 012c24f:merge.go
run "6d95b86 Process on a copy (D9)" C19 -- 6d95b86
run "5e321e7+7d299c4+be2b4cf reference copies, cycle detection, host restore (D1b)" C10 C09 C08 -- be2b4cf 7d299c4 5e321e7:process1.go
run "be2b4cf host restore" C10 -- be2b4cf
run "be2b4cf+7d299c4 cycle detection" C08 -- be2b4cf 7d299c4
run "3b73fba finalizeMap sorted (D10)" C09 -- 3b73fba
run "3fd9965 key assertions (D4)" C08 -- 3fd9965
run "7b038d5 interpolation depth guard (D5)" C08 -- 7b038d5
run "7a030ac parent cycle (D6)" C08 -- 7a030ac
run "3366fce yaml self alias (D8) [with aadbaa0 undone first]" C08 -- aadbaa0 3366fce
run "28dbd0c -P pops parent (D2)" C03 -- 28dbd0c
run "2b7aed6 number normalisation (D3)" C04 C05 -- 2b7aed6
run "48b586a bkli multiset (D12)" C16 -- 48b586a
run "ca6b8bb decode normalize (D13)" C14 -- ca6b8bb
run "dfa9e75 toml nil doc" C05 -- dfa9e75
run "0ca17d9 bkld fallback (D11)" C15 -- 0ca17d9
run "aadbaa0 yaml << quoting" C05 -- aadbaa0
run "64284f9 YAML block-scalar guard" C14 C05 -- 64284f9
run "56ab4b7 symlink cycle" C08 -- 56ab4b7
run "ed4068c structural deepClone" C01 C12 -- ed4068c
run "9344719 flags rejects arguments" C14 -- 9344719
run "a127cb7 list-form merge chains" C10 -- a127cb7
run "bf22a46 environment entries" C08 -- bf22a46
run "a3599b9 interpolated markers" C07 -- a3599b9
run "306671e yaml separators" C04 -- 306671e
run "38477fe bkld empty toml layer" C15 -- 38477fe
run "d8b25ca yaml alias as key" C04 -- d8b25ca
run "1ee3d64 yaml infinite floats" C14 -- 1ee3d64
run "91801cb yaml leading empty document" C05 -- 91801cb
