#!/bin/bash
# Confirms one candidate change in a scratch worktree (never in /repo):
#   - it applies and builds; the pinned suite (go test ./...) and ./test pass with it;
#   - the demonstration fails with it and passes without it.
# usage: tools/confirm_seed.sh <candidate dir with patch.diff + demo_test.go> <name>
# prints a one-line JSON summary.
src=$1; name=$2
export GOFLAGS=-mod=mod GOPROXY=off
wt=/tmp/confirm-$name
git -C /repo worktree remove --force $wt >/dev/null 2>&1
git -C /repo worktree add -q --detach $wt HEAD || exit 2
cd $wt
res() { echo "{\"name\":\"$name\",\"applies\":$1,\"builds\":$2,\"pinned_suite_passes\":$3,\"fixtures_pass\":$4,\"demo_fails_with\":$5,\"demo_passes_without\":$6}"; }
if ! git apply $src/patch.diff 2>/dev/null; then res false false false false false false; cd /; git -C /repo worktree remove --force $wt; exit 0; fi
b=false; go build ./... >/dev/null 2>&1 && b=true
p=false; go test -vet=off -count=1 ./... >/tmp/confirm-$name.gotest 2>&1 && p=true
f=false; ./test >/dev/null 2>&1 && f=true
demo=""
if [ -f $src/demo_test.go ]; then cp $src/demo_test.go zz_seed_demo_test.go; demo="go test -vet=off -count=1 -run '^($(grep -o 'func Test[A-Za-z0-9_]*' zz_seed_demo_test.go | sed 's/func //' | paste -sd'|'))\$' ."; 
elif [ -f $src/demo.sh ]; then demo="WT=$wt bash $src/demo.sh $wt"; fi
if [ -f $src/demo_test.go ] && grep -q '^package main' $src/demo_test.go; then
  sub=$(grep -o 'cmd/bkl[a-z]*' $src/README.md | head -1)
  rm -f zz_seed_demo_test.go; cp $src/demo_test.go $sub/zz_seed_demo_test.go
  demo="go test -vet=off -count=1 -run '^($(grep -o 'func Test[A-Za-z0-9_]*' $src/demo_test.go | sed 's/func //' | paste -sd'|'))\$' ./$sub"
fi
dw=false; dwo=false
if [ -n "$demo" ]; then
  if ! eval "$demo" >/tmp/confirm-$name.with 2>&1; then dw=true; fi
  git apply -R $src/patch.diff
  if eval "$demo" >/tmp/confirm-$name.without 2>&1; then dwo=true; fi
fi
res true $b $p $f $dw $dwo
cd /
git -C /repo worktree remove --force $wt
