#!/bin/bash
cd "$(dirname "$0")/.."
out=detection/seeded_round12_${1:-first}.txt
ls seeded | grep r12 | VERIF_WORKERS=3 xargs -P 6 -I{} ./tools/run_seeded.sh {} quick > $out.tmp 2>&1
sort $out.tmp > $out; rm -f $out.tmp
