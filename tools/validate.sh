#!/bin/bash
# validates MANIFEST.json and every evidence file against the schemas
cd "$(dirname "$0")/.."
python3-vt - <<'PY'
import json,jsonschema,glob
jsonschema.validate(json.load(open('MANIFEST.json')), json.load(open('/root/.vp/MANIFEST.schema.json')))
es=json.load(open('/root/.vp/EVIDENCE.schema.json'))
for f in sorted(glob.glob('evidence/*.json')):
    jsonschema.validate(json.load(open(f)), es)
    print('ok', f)
print('manifest ok')
PY
