#!/bin/bash
# Copies the pure-function sources of the diff/intersect/required tools out of the
# repository working tree ($VERIF_REPO, default /repo) into virtual packages
# verif/toolcopy/{bkld,bkli,bklr} (package clause rewritten, fatal() panics), so that
# bulk enumeration runs in-process against exactly the code in the tree being checked.
# The copies live under <out dir> and are mapped into the module with `go build -overlay`.
# usage: tools/gencopies.sh <out dir>      (writes <out dir>/overlay.json)
set -e
cd "$(dirname "$0")/.."
VERIF=$(pwd)
REPO=${VERIF_REPO:-/repo}
out=${1:-$VERIF/.work/toolcopy}
mkdir -p "$out"
entries=""
put() { # <tool> <file name> <tmp content file>
  mkdir -p "$out/$1"
  if ! cmp -s "$3" "$out/$1/$2" 2>/dev/null; then mv "$3" "$out/$1/$2"; else rm -f "$3"; fi
  entries="$entries\"$VERIF/engine/toolcopy/$1/$2\": \"$out/$1/$2\","
}
for t in bkld:diff bkli:intersect bklr:required; do
  tool=${t%%:*}; file=${t##*:}
  tmp=$(mktemp)
  sed -e "s/^package main\$/package $tool/" "$REPO/cmd/$tool/$file.go" > "$tmp"
  put $tool $file.go "$tmp"
  tmp=$(mktemp)
  {
    echo "package $tool"
    echo
    if [ $tool = bkld ]; then echo 'import "github.com/gopatchy/bkl"'; echo; fi
    echo "// fatal mirrors cmd/$tool/main.go:fatal but panics instead of exiting, so the"
    echo "// in-process harness observes the failure."
    echo "func fatal(err error) { panic(err) }"
    echo
    echo "var _ = fatal"
    echo
    case $tool in
      bkld) echo "func Diff(dst, src any) (any, error) { return diff(dst, src) }"
            echo
            echo "func DiffDoc(dst, src *bkl.Document) (any, error) { return diffDoc(dst, src) }" ;;
      bkli) echo "func Intersect(a, b any) (any, error) { return intersect(a, b) }" ;;
      bklr) echo "func Required(obj any) (any, error) { return required(obj) }" ;;
    esac
  } > "$tmp"
  put $tool stub.go "$tmp"
done
echo "{\"Replace\": {${entries%,}}}" > "$out/overlay.json"
