#!/bin/bash
# Copies the pure-function sources of the diff/intersect/required tools out of
# /repo's working tree into importable packages (package clause rewritten), so
# that bulk enumeration runs in-process against exactly the code in /repo.
set -e
cd "$(dirname "$0")/.."
gen=engine/toolcopy
for t in bkld:diff bkli:intersect bklr:required; do
  tool=${t%%:*}; file=${t##*:}
  mkdir -p $gen/$tool
  src=/repo/cmd/$tool/$file.go
  dst=$gen/$tool/$file.go
  tmp=$(mktemp)
  sed -e "s/^package main\$/package $tool/" "$src" > "$tmp"
  if ! cmp -s "$tmp" "$dst" 2>/dev/null; then mv "$tmp" "$dst"; else rm -f "$tmp"; fi
  stub=$gen/$tool/stub.go
  {
    echo "package $tool"
    echo
    if [ $tool = bkld ]; then echo 'import "github.com/gopatchy/bkl"'; echo; fi
    echo "// fatal mirrors cmd/$tool/main.go:fatal but panics instead of exiting, so the"
    echo "// in-process harness observes the failure."
    echo "func fatal(err error) { panic(err) }"
    echo
    echo "var _ = fatal"
    echo
    case $tool in
      bkld) echo "func Diff(dst, src any) (any, error) { return diff(dst, src) }"
            echo
            echo "func DiffDoc(dst, src *bkl.Document) (any, error) { return diffDoc(dst, src) }" ;;
      bkli) echo "func Intersect(a, b any) (any, error) { return intersect(a, b) }" ;;
      bklr) echo "func Required(obj any) (any, error) { return required(obj) }" ;;
    esac
  } > "$stub.tmp"
  if ! cmp -s "$stub.tmp" "$stub" 2>/dev/null; then mv "$stub.tmp" "$stub"; else rm -f "$stub.tmp"; fi
done
