#!/bin/bash
# Copies the sub-agent deliveries of one round (/tmp/seed<R>-Cxx/mN) into seeded/Cxx-r<R>mN.
# usage: tools/import_round.sh <round> [extra destination root]
R=$1; cd "$(dirname "$0")/.."
for d in /tmp/seed$R-C*/m?; do
  [ -f $d/patch.diff ] || continue
  p=$(basename $(dirname $d) | sed "s/seed$R-//"); m=$(basename $d); id=$p-r$R$m
  for root in . $2; do
    dst=$root/seeded/$id; mkdir -p $dst
    cp $d/patch.diff $d/README.md $dst/
    for f in $d/demo.sh $d/demo_with.txt $d/demo_without.txt $d/checks.txt; do [ -f $f ] && cp $f $dst/; done
    [ -f $d/demo_test.go ] && cp $d/demo_test.go $dst/demo_test.go.txt
    [ -f $dst/meta.json ] || printf '{\n "id": "%s",\n "property": "%s",\n "origin": "round %s: independent sub-agent given the property text, a scratch worktree and one line per earlier change to avoid"\n}\n' $id $p $R > $dst/meta.json
  done
done
ls seeded | grep -c "r$R"
