#!/bin/bash
cd "$(dirname "$0")/.."
out=detection/seeded_round10_${1:-first}.txt
ls seeded | grep r10 | VERIF_WORKERS=4 xargs -P 4 -I{} ./tools/run_seeded.sh {} quick > $out.tmp 2>&1
sort $out.tmp > $out; rm -f $out.tmp
