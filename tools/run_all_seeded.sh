#!/bin/bash
# runs every seeded change against its own property's check (4 at a time, 4 workers each)
cd "$(dirname "$0")/.."
tier=${1:-quick}
out=detection/seeded_$tier.txt
ls seeded | VERIF_WORKERS=4 xargs -P 4 -I{} ./tools/run_seeded.sh {} $tier > $out.tmp 2>&1
sort $out.tmp > $out; rm -f $out.tmp
