#!/usr/bin/python3
"""Independent batch parser for JSON / YAML (1.2 core schema) / TOML.

usage: parse_any.py <manifest.json>
manifest: [{"file": path, "format": "json"|"yaml"|"toml"}, ...]
stdout: JSON list, one entry per item: {"docs": [...]} or {"error": "..."}.
Values are type-tagged so that Go can compare exactly:
  int -> {"$i": "<decimal>"}, float -> {"$f": "<repr>"}, map -> {"$m": {...}}, others native.
"""
import json, re, sys, math
import yaml, tomllib


class Core12Loader(yaml.SafeLoader):
    """PyYAML SafeLoader with the YAML 1.2 core schema resolvers instead of the 1.1 ones."""


Core12Loader.yaml_implicit_resolvers = {}
Core12Loader.add_implicit_resolver('tag:yaml.org,2002:null', re.compile(r'^(?:~|null|Null|NULL|)$'), ['~', 'n', 'N', ''])
Core12Loader.add_implicit_resolver('tag:yaml.org,2002:bool', re.compile(r'^(?:true|True|TRUE|false|False|FALSE)$'), list('tTfF'))
Core12Loader.add_implicit_resolver('tag:yaml.org,2002:int', re.compile(r'^(?:[-+]?[0-9]+|0o[0-7]+|0x[0-9a-fA-F]+)$'), list('-+0123456789'))
Core12Loader.add_implicit_resolver('tag:yaml.org,2002:float', re.compile(
    r'^(?:[-+]?(?:\.[0-9]+|[0-9]+(?:\.[0-9]*)?)(?:[eE][-+]?[0-9]+)?|[-+]?\.(?:inf|Inf|INF)|\.(?:nan|NaN|NAN))$'), list('-+0123456789.'))
Core12Loader.add_implicit_resolver('tag:yaml.org,2002:merge', re.compile(r'^(?:<<)$'), ['<'])


def _int(loader, node):
    s = loader.construct_scalar(node)
    if s.startswith('0o'):
        return int(s[2:], 8)
    if s.startswith('0x'):
        return int(s[2:], 16)
    return int(s)


def _float(loader, node):
    s = loader.construct_scalar(node).lower()
    if s.endswith('.inf'):
        return -math.inf if s.startswith('-') else math.inf
    if s == '.nan':
        return math.nan
    return float(s)


Core12Loader.add_constructor('tag:yaml.org,2002:int', _int)
Core12Loader.add_constructor('tag:yaml.org,2002:float', _float)


def tag(v):
    if v is None or isinstance(v, (bool, str)):
        return v
    if isinstance(v, int):
        return {"$i": str(v)}
    if isinstance(v, float):
        return {"$f": repr(v)}
    if isinstance(v, dict):
        return {"$m": {str(k): tag(c) for k, c in v.items()}}
    if isinstance(v, (list, tuple)):
        return [tag(c) for c in v]
    return {"$other": str(type(v)) + ":" + str(v)}


def parse(path, fmt):
    data = open(path, 'rb').read()
    if fmt == 'json':
        text = data.decode('utf-8')
        dec = json.JSONDecoder()
        docs, i = [], 0
        n = len(text)
        while True:
            while i < n and text[i] in ' \t\r\n':
                i += 1
            if i >= n:
                break
            v, i = dec.raw_decode(text, i)
            docs.append(v)
        return docs
    if fmt == 'yaml':
        return list(yaml.load_all(data.decode('utf-8'), Loader=Core12Loader))
    if fmt == 'toml':
        text = data.decode('utf-8')
        parts = re.split(r'(?m)^(?:\+\+\+|---)$', text)
        return [tomllib.loads(p) for p in parts]
    raise ValueError('format ' + fmt)


def main():
    items = json.load(open(sys.argv[1]))
    out = []
    for it in items:
        try:
            out.append({"docs": [tag(d) for d in parse(it["file"], it["format"])]})
        except Exception as e:  # noqa
            out.append({"error": type(e).__name__ + ": " + str(e)[:200]})
    json.dump(out, sys.stdout)


if __name__ == '__main__':
    main()
